------------------------------ MODULE MC_Problem ------------------------------
(* Every base problem of ProblemFamily in every object-list style is well  *)
(* formed and is read back from its rendering unchanged; every single-point *)
(* corruption is ill formed (so "must be rejected" is never vacuous).       *)
EXTENDS ProblemFamily

VARIABLES b, c, style
vars == <<b, c, style>>
NoCorr == [kind |-> "none"]

Init == /\ b \in DOMAIN Base
        /\ c \in {NoCorr} \cup AllCorr(Base[b])
        /\ style \in Styles
Next == UNCHANGED vars
Spec == Init /\ [][Next]_vars

Current == IF c = NoCorr THEN Base[b] ELSE c.P

BaseWellFormed == c = NoCorr => WFProblem(PDom, ReadP(Base[b], style))
CorruptionsIllFormed == c # NoCorr => ~WFProblem(PDom, ReadP(c.P, style))
ReadBack ==
  LET Rd == ReadP(Current, style)  P == Current IN
  /\ Rd.name = P.name /\ Rd.domain = P.domain /\ Rd.objs = P.objs
  /\ Rd.init.facts = Range(P.facts)
  /\ Rd.init.fl = [g \in {<<P.fls[i][1], P.fls[i][2]>> : i \in DOMAIN P.fls} |->
                     P.fls[CHOOSE i \in DOMAIN P.fls : <<P.fls[i][1], P.fls[i][2]>> = g][3]]
  /\ Rd.goal.lits = Range(P.glits) /\ Rd.goal.cmps = Range(P.gcmps)
\* the known deviation really is a deviation: some corruption is accepted under it
BadGoalUnchecked == c # NoCorr => ~WFProblemD(PDom, ReadP(c.P, style), {"GoalFluentUnchecked"})
=============================================================================
