--------------------------------- MODULE Plan ---------------------------------
(***************************************************************************)
(* Plans and trajectories (C04, C10).                                      *)
(*                                                                         *)
(* A plan is a sequence of calls [act, args].  Executing it from a state   *)
(* yields one step [pre, op, post] per plan line:                          *)
(*   - the first pre-state is the given state, every later pre-state is    *)
(*     the preceding post-state (Chain);                                   *)
(*   - post = the PDDL successor of pre under the call when the action is  *)
(*     applicable, or when inapplicable actions were explicitly allowed;   *)
(*   - an inapplicable action is *refused*: in a trajectory the state      *)
(*     stays as it is (directly applied it is an error, PddlApi!Apply_Exp). *)
(* RunStep is the per-line small step; Run is its fold.  `open' marks a    *)
(* run that entered a region the properties leave open (see Semantics).    *)
(***************************************************************************)
EXTENDS Syntax

StepOf(D, u, call, st, allow, eps, dv) ==
  IF ~HasAction(D, call.act) THEN [open |-> TRUE, post |-> st]
  ELSE LET a == ActionNamed(D, call.act) IN
    IF Len(call.args) # Len(a.params) THEN [open |-> TRUE, post |-> st]
    ELSE LET env == EnvOfCall(a, call.args)
             h   == Holds3(a.pre, env, st, u, eps, dv)
         IN  IF h = "U" THEN [open |-> TRUE, post |-> st]
             ELSE IF h = "F" /\ ~allow THEN [open |-> FALSE, post |-> st]          \* refused
             ELSE LET s == Succ(a.eff, env, st, u, eps, dv)
                  IN  IF s.ok THEN [open |-> FALSE, post |-> s.st] ELSE [open |-> TRUE, post |-> st]

\* Run: the sequence of steps, cut at the first open step
RECURSIVE RunFrom(_, _, _, _, _, _, _, _)
RunFrom(D, u, plan, i, st, allow, eps, dv) ==
  IF i > Len(plan) THEN [open |-> FALSE, steps |-> <<>>]
  ELSE LET r == StepOf(D, u, plan[i], st, allow, eps, dv) IN
       IF r.open THEN [open |-> TRUE, steps |-> <<>>]
       ELSE LET rest == RunFrom(D, u, plan, i + 1, r.post, allow, eps, dv)
            IN  [open |-> rest.open, steps |-> <<[pre |-> st, op |-> plan[i], post |-> r.post]>> \o rest.steps]

Run(D, u, plan, st, allow, eps, dv) == RunFrom(D, u, plan, 1, st, allow, eps, dv)

\* the chain property of any sequence of steps
Chain(steps, st0) ==
  /\ (steps # <<>> => steps[1].pre = st0)
  /\ \A i \in 1..(Len(steps) - 1) : steps[i + 1].pre = steps[i].post
=============================================================================
