-------------------------------- MODULE Types ---------------------------------
(***************************************************************************)
(* Type forests and their declarations (C06).                              *)
(*                                                                         *)
(* A forest over a set of names is a parent map into names \cup {object}   *)
(* without cycles.  It is *written* as declaration groups                  *)
(*        c1 ... ck - p                                                    *)
(* in any order and any grouping; children of object may also be written   *)
(* as trailing names without "- object", and a parent need never occur on  *)
(* a left-hand side (then it is a child of object).                        *)
(*                                                                         *)
(*   declarative   the subtype relation is the reflexive-transitive closure *)
(*                 of the forest (Semantics!SubType on the parent map)     *)
(*   two-phase     Grammar!ParentOf(Grammar!TypedList(tokens)): collect all *)
(*                 <<child, parent>> pairs, then link - order independent  *)
(*   one-pass      OnePass: the as-found algorithm that links a child to   *)
(*                 the parent object it knows *at that moment* (negative   *)
(*                 control: refuted when a parent is declared after its    *)
(*                 children)                                               *)
(***************************************************************************)
EXTENDS Grammar

\* all forests on the names S: parent maps whose chains reach "object"
RECURSIVE Reaches(_, _, _)
Reaches(par, n, fuel) == IF n = "object" THEN TRUE ELSE IF fuel = 0 THEN FALSE ELSE Reaches(par, par[n], fuel - 1)
Forests(S) == {par \in [S -> S \cup {"object"}] : \A n \in S : Reaches(par, n, Cardinality(S))}

\* the declaration groups of a forest: one group per parent that has children
GroupsOf(par) == {[p |-> p, cs |-> {c \in DOMAIN par : par[c] = p}] : p \in {par[c] : c \in DOMAIN par}}

\* tokens of one group; trailing = written without "- object"
GroupTokens(g, trailing) ==
  LET cs == SetToSeq(g.cs)
  IN  IF trailing THEN [i \in DOMAIN cs |-> Sy(cs[i])]
      ELSE [i \in DOMAIN cs |-> Sy(cs[i])] \o <<Sy("-"), Sy(g.p)>>

\* a rendering: the groups in the order `order' (a sequence of groups); the
\* object group may come last without its type
RECURSIVE Render(_, _)
Render(order, trailObj) ==
  IF order = <<>> THEN <<>>
  ELSE GroupTokens(order[1], trailObj /\ Len(order) = 1 /\ order[1].p = "object") \o Render(Tail(order), trailObj)

\* splitting every group into singletons is another legal rendering
Singles(order) ==
  LET parts(g) == [i \in 1..Cardinality(g.cs) |-> [p |-> g.p, cs |-> {SetToSeq(g.cs)[i]}]]
  IN  FlattenSeq([i \in DOMAIN order |-> parts(order[i])])

Closure(par) == [a \in DOMAIN par \cup {"object"} |-> {b \in DOMAIN par \cup {"object"} : SubType(par, a, b)}]

\* what a reader of the tokens must conclude
ReadForest(tokens) == ParentOf(TypedList(tokens))

----------------------------------------------------------------------------
(* one-pass algorithm (as found): types : name -> [parent object id]; an    *)
(* unknown parent becomes a *fresh, unregistered* child of object           *)

RECURSIVE OnePassAux(_, _)
\* known : name -> parent chain as a sequence of names ending in "object"
OnePassAux(pairsGrouped, known) ==
  IF pairsGrouped = <<>> THEN known
  ELSE LET g == pairsGrouped[1]
           chainOfParent == IF g.p = "object" THEN <<"object">>
                            ELSE IF g.p \in DOMAIN known THEN <<g.p>> \o known[g.p]
                            ELSE <<g.p, "object">>
           upd == [n \in DOMAIN known \cup g.cs |-> IF n \in g.cs THEN chainOfParent ELSE known[n]]
       IN  OnePassAux(Tail(pairsGrouped), upd)

OnePassSub(order, a, b) ==
  LET known == OnePassAux(order, [x \in {} |-> <<>>])
  IN  a = b \/ b = "object" \/ (a \in DOMAIN known /\ \E i \in DOMAIN known[a] : known[a][i] = b)
=============================================================================
