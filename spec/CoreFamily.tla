----------------------------- MODULE CoreFamily -------------------------------
(***************************************************************************)
(* The bounded family of programs (formulas, effect lists), the typed two- *)
(* object universe and its states, shared by the model-checking instance   *)
(* (MC_Semantics) and the generator (Gen_Core).                            *)
(***************************************************************************)
EXTENDS Syntax

CONSTANTS Mode,        \* "pre" | "eff"
          Depth,       \* 1: members are literals; 2: nested and/or/forall members
          NVals        \* number of distinct fluent values per ground fluent (2 or 3)

U == [parent |-> [t1 |-> "object", t2 |-> "t1"], objs |-> [a |-> "t2", b |-> "t1"]]
EpsM == <<1, 10000>>
Objs == {"a", "b"}

Atom(p, a) == [k |-> "atom", p |-> p, a |-> a]
NotF(f)    == [k |-> "not", f |-> f]
Num(n, d)  == [k |-> "num", v |-> <<n, d>>]
Fl(f, a)   == [k |-> "fl", f |-> f, a |-> a]
Bin(op, l, r) == [k |-> "bin", op |-> op, l |-> l, r |-> r]
CmpF(op, l, r) == [k |-> "cmp", op |-> op, l |-> l, r |-> r]

\* literals over the parameters ?x ?y (and, inside a quantifier, ?z)
AtomsOver(vs) == {Atom("p", <<v>>) : v \in vs} \cup {Atom("q", <<v, w>>) : v, w \in vs}
LitsOver(vs) ==
  LET A == {x \in AtomsOver(vs) : x.p = "p" \/ x.a[1] # x.a[2]}
  IN  A \cup {NotF(x) : x \in A}

EqLits == {[k |-> "eq", l |-> "?x", r |-> "?y"], NotF([k |-> "eq", l |-> "?x", r |-> "?y"])}
CmpLits == { CmpF("<", Fl("f", <<"?x">>), Fl("g", <<>>)),
             CmpF(">=", Bin("-", Fl("f", <<"?x">>), Fl("f", <<"?y">>)), Num(1, 2)),
             CmpF("=", Fl("g", <<>>), Bin("/", Fl("f", <<"?y">>), Num(2, 1))) }

L0 == LitsOver({"?x", "?y"}) \cup EqLits \cup CmpLits
\* literals that mention the quantified variable
LZ == {l \in LitsOver({"?x", "?z"}) : \E i \in DOMAIN (IF l.k = "not" THEN l.f.a ELSE l.a) :
                                          (IF l.k = "not" THEN l.f.a ELSE l.a)[i] = "?z"}

Conn(op, S) == {[k |-> op, fs |-> <<x>>] : x \in S} \cup {[k |-> op, fs |-> <<x, y>>] : x, y \in S}
Foralls == {[k |-> "forall", v |-> "?z", t |-> ty, f |-> b] : ty \in {"t1", "t2", "object"}, b \in Conn("and", LZ) \cup Conn("or", LZ)}

\* a small, order-normalised sample of pairs keeps Depth 2 at a few tens of thousands
L0seq == SetToSeq(L0)
Pairs(op) == {[k |-> op, fs |-> <<L0seq[i], L0seq[j]>>] : i, j \in {m \in DOMAIN L0seq : m % 2 = 0}}
M1 == L0
M2 == L0 \cup Pairs("or") \cup Pairs("and") \cup Foralls

MemberSet == IF Depth = 1 THEN M1 ELSE M2
Formulas ==
  {TrueF} \cup {[k |-> "and", fs |-> <<m>>] : m \in MemberSet}
  \cup (IF Depth = 1 THEN {[k |-> "and", fs |-> <<m1, m2>>] : m1, m2 \in M1}
        ELSE {[k |-> "and", fs |-> <<m1, m2>>] : m1 \in L0, m2 \in M2 \ L0}
             \* the nested member first: a literal that also occurs inside an earlier sibling
             \cup {[k |-> "and", fs |-> <<m2, m1>>] : m1 \in {x \in L0 : x.k \in {"atom", "not"}}, m2 \in Pairs("or") \cup Pairs("and")})

----------------------------------------------------------------------------
FactsAll == {<<"p", <<o>>>> : o \in Objs} \cup {<<"q", <<o1, o2>>>> : o1, o2 \in Objs}
FlKeys == {<<"f", <<"a">>>>, <<"f", <<"b">>>>, <<"g", <<>>>>}
FlVals == IF NVals = 2 THEN {<<0, 1>>, <<3, 2>>} ELSE {<<0, 1>>, <<1, 1>>, <<3, 2>>}
States == {[facts |-> F, fl |-> v] : F \in SUBSET FactsAll, v \in [FlKeys -> FlVals]}
\* ?x must be of type t1: a (t2 <= t1) and b; ?y likewise
Envs == [{"?x", "?y"} -> Objs]

----------------------------------------------------------------------------
(* effect lists *)
Add(p, a) == [k |-> "add", p |-> p, a |-> a]
Del(p, a) == [k |-> "del", p |-> p, a |-> a]
Upd(op, f, a, e) == [k |-> "upd", op |-> op, f |-> f, a |-> a, e |-> e]

SimpleXY == {Add("p", <<"?x">>), Del("p", <<"?y">>), Add("q", <<"?x", "?y">>), Del("q", <<"?y", "?x">>),
             Upd("increase", "g", <<>>, Fl("f", <<"?x">>)),
             Upd("assign", "f", <<"?x">>, Bin("*", Fl("g", <<>>), Num(1, 2))),
             Upd("decrease", "f", <<"?y">>, Num(1, 1))}
SimpleZ  == {Add("p", <<"?z">>), Del("q", <<"?z", "?x">>), Upd("assign", "f", <<"?z">>, Fl("g", <<>>)),
             Upd("increase", "f", <<"?z">>, Fl("f", <<"?x">>))}
Conds == {Atom("p", <<"?x">>), NotF(Atom("q", <<"?x", "?y">>)), CmpF(">", Fl("f", <<"?y">>), Num(1, 2)),
          [k |-> "and", fs |-> <<NotF(Atom("p", <<"?y">>)), [k |-> "eq", l |-> "?x", r |-> "?y"]>>]}
CondsZ == {Atom("p", <<"?z">>), NotF(Atom("q", <<"?z", "?x">>)), CmpF("<=", Fl("f", <<"?z">>), Fl("g", <<>>))}

Whens == {[k |-> "when", c |-> c, es |-> <<e>>] : c \in Conds, e \in SimpleXY}
ForallWs == {[k |-> "forall", v |-> "?z", t |-> ty, c |-> c, es |-> <<e>>, bare |-> FALSE] :
               ty \in {"t1", "t2"}, c \in CondsZ, e \in SimpleZ}

EffLists ==
  {<<e>> : e \in SimpleXY} \cup {<<e1, e2>> : e1, e2 \in SimpleXY}
  \cup {<<e, w>> : e \in SimpleXY, w \in Whens}
  \cup (IF Depth = 1 THEN {} ELSE
        {<<w1, w2>> : w1, w2 \in Whens} \cup {<<e, w>> : e \in SimpleXY, w \in ForallWs}
        \cup {<<w, fw>> : w \in {x \in Whens : x.es[1].k = "upd"}, fw \in ForallWs})

=============================================================================
