------------------------------- MODULE Rat ----------------------------------
(***************************************************************************)
(* Exact rational arithmetic for the PDDL numeric fragment.                *)
(* A rational is a pair <<n, d>> with d > 0 and gcd(|n|, d) = 1.           *)
(* TLC integers are 32 bit and TLC aborts on overflow, so an out-of-range  *)
(* intermediate is a machinery failure, never a wrong verdict.             *)
(***************************************************************************)
EXTENDS Integers, Sequences

Abs(x) == IF x < 0 THEN -x ELSE x

RECURSIVE Gcd(_, _)
Gcd(a, b) == IF b = 0 THEN a ELSE Gcd(b, a % b)

Norm(n, d) ==
  LET s == IF d < 0 THEN -1 ELSE 1
      g == Gcd(Abs(n), Abs(d))
  IN  IF n = 0 THEN <<0, 1>> ELSE <<(s * n) \div g, (s * d) \div g>>

IsRat(x) == /\ x \in Seq(Int) /\ Len(x) = 2 /\ x[2] > 0

R(n) == <<n, 1>>
RZero == <<0, 1>>
ROne  == <<1, 1>>

RAdd(x, y) == Norm(x[1] * y[2] + y[1] * x[2], x[2] * y[2])
RSub(x, y) == Norm(x[1] * y[2] - y[1] * x[2], x[2] * y[2])
RMul(x, y) == Norm(x[1] * y[1], x[2] * y[2])
RNeg(x)    == <<-x[1], x[2]>>
RAbs(x)    == <<Abs(x[1]), x[2]>>
RIsZero(x) == x[1] = 0
\* division by zero is left undefined on purpose: generators never produce it
RDiv(x, y) == Norm(x[1] * y[2], x[2] * y[1])

\* equal denominators are compared on the numerators alone: no cross
\* multiplication, so magnitudes up to 2^31 / denominator can be compared
RLt(x, y) == IF x[2] = y[2] THEN x[1] < y[1] ELSE x[1] * y[2] < y[1] * x[2]
RLe(x, y) == IF x[2] = y[2] THEN x[1] <= y[1] ELSE x[1] * y[2] <= y[1] * x[2]
REq(x, y) == IF x[2] = y[2] THEN x[1] = y[1] ELSE x[1] * y[2] = y[1] * x[2]

RBin(op, x, y) ==
  CASE op = "+" -> RAdd(x, y)
    [] op = "-" -> RSub(x, y)
    [] op = "*" -> RMul(x, y)
    [] op = "/" -> RDiv(x, y)

(***************************************************************************)
(* Tolerance comparison (property C12).  `=', `<=', `>=' hold when the two *)
(* sides differ by no more than eps, otherwise the real ordering decides;  *)
(* `<' and `>' are strict.  At *exactly* eps apart binary floating point   *)
(* may fall on either side, so that single point is a don't-care:          *)
(* CmpTolSet returns the set of admissible answers.                        *)
(***************************************************************************)
\* Operands are kept inside 15 bits per component so that every cross
\* multiplication below stays inside TLC's 32-bit integers (TLC aborts on
\* overflow).  A value outside the bound (or the marker <<0, 0>> the harness
\* writes for a float it cannot render as a small rational) is "too big": the
\* semantics treats a computation on it as undetermined rather than guessing.
Limit == 16384
TooBig(x) == x[2] = 0 \/ Abs(x[1]) > Limit \/ x[2] > Limit

\* Comparisons first bring the operands to a common denominator when one
\* denominator divides the other (values on a common grid, e.g. multiples of
\* half a tolerance at magnitude 10^6): then no cross multiplication is needed.
CanScale(x, k) == Abs(x[1]) <= 2000000000 \div k
AlignL(x, y) ==   \* x rescaled to y's denominator when possible, else x
  IF x[2] # 0 /\ y[2] # 0 /\ y[2] % x[2] = 0 /\ CanScale(x, y[2] \div x[2])
  THEN <<x[1] * (y[2] \div x[2]), y[2]>> ELSE x
\* a comparison is safe to compute when the (aligned) denominators are equal
\* or both operands are inside the bound
CmpSafe(x, y) ==
  LET a == AlignL(x, y)  b == AlignL(y, x)
  IN  x[2] # 0 /\ y[2] # 0 /\ (a[2] = b[2] \/ (~TooBig(x) /\ ~TooBig(y)))

\* |x - y| <= eps.  The short cut for differences of one or more keeps the
\* cross multiplication inside 32 bits (eps is far below one).
Within(x, y, eps) ==
  IF x[2] = y[2]
  THEN LET k == Abs(x[1] - y[1]) IN      \* |x - y| = k / x[2]
       IF k >= x[2] /\ eps[1] < eps[2] THEN FALSE
       ELSE IF k > 2000000000 \div eps[2] THEN FALSE      \* k * eps[2] would exceed eps[1] * x[2]
       ELSE k * eps[2] <= eps[1] * x[2]
  ELSE
  LET d == RAbs(RSub(x, y))
  IN  IF d[1] >= d[2] /\ eps[1] < eps[2] THEN FALSE
      ELSE IF d[1] > 200000 THEN FALSE          \* d[1] * eps[2] would exceed any d[2]
      ELSE RLe(d, eps)
ExactlyAt(x, y, eps) ==
  IF x[2] = y[2]
  THEN LET k == Abs(x[1] - y[1]) IN
       IF k >= x[2] /\ eps[1] < eps[2] THEN FALSE
       ELSE IF k > 2000000000 \div eps[2] THEN FALSE
       ELSE k * eps[2] = eps[1] * x[2]
  ELSE
  LET d == RAbs(RSub(x, y))
  IN  IF d[1] >= d[2] /\ eps[1] < eps[2] THEN FALSE
      ELSE IF d[1] > 200000 THEN FALSE
      ELSE REq(d, eps)

CmpTolA(op, x, y, eps) ==
  CASE op = "="  -> Within(x, y, eps)
    [] op = "<=" -> Within(x, y, eps) \/ RLt(x, y)
    [] op = ">=" -> Within(x, y, eps) \/ RLt(y, x)
    [] op = "<"  -> RLt(x, y)
    [] op = ">"  -> RLt(y, x)

CmpTol(op, x, y, eps) == CmpTolA(op, AlignL(x, y), AlignL(y, x), eps)

CmpTolSetA(op, x, y, eps) ==
  IF ExactlyAt(x, y, eps) /\ op \in {"=", "<=", ">="} /\ ~RIsZero(eps)
  THEN IF op = "=" THEN BOOLEAN
       ELSE IF (op = "<=" /\ RLt(x, y)) \/ (op = ">=" /\ RLt(y, x)) THEN {TRUE}
       ELSE BOOLEAN
  ELSE {CmpTolA(op, x, y, eps)}

CmpTolSet(op, x, y, eps) == CmpTolSetA(op, AlignL(x, y), AlignL(y, x), eps)
=============================================================================
