------------------------------ MODULE MultiAgent -------------------------------
(***************************************************************************)
(* Joint actions and the conversion of sequential multi-agent plans        *)
(* (C15, C16).                                                             *)
(*                                                                         *)
(* A joint action is a sequence of member calls, one slot per agent, a     *)
(* slot holding [act |-> "nop", args |-> <<>>] when its agent idles.       *)
(*  - SeqSucc(members, st): the members applied one after the other;       *)
(*  - Commute(members, st): in *every* order each member is applicable     *)
(*    when its turn comes and all orders end in the same state - the       *)
(*    weakest reading of "do not interfere";                               *)
(*  - JointExp: what applying a joint action must return;                  *)
(*  - ValidConversion: the five clauses a converted plan must satisfy;     *)
(*  - GreedyPack: the shape of a greedy converter as a step relation, with *)
(*    a pluggable interference test (MC_Convert checks that the semantic   *)
(*    test yields a valid conversion and that a weakened test does not).   *)
(***************************************************************************)
EXTENDS Plan

Nop == [act |-> "nop", args |-> <<>>]
IsNop(c) == c.act = "nop"
Active(members) == SelectSeq(members, LAMBDA c : ~IsNop(c))

AppIn(D, u, c, st, eps, dv) ==
  IF ~HasAction(D, c.act) THEN "U"
  ELSE LET a == ActionNamed(D, c.act) IN
       IF Len(c.args) # Len(a.params) THEN "U" ELSE Holds3(a.pre, EnvOfCall(a, c.args), st, u, eps, dv)

SuccIn(D, u, c, st, eps, dv) ==
  LET a == ActionNamed(D, c.act) IN Succ(a.eff, EnvOfCall(a, c.args), st, u, eps, dv)

\* members one after the other, each applicable when its turn comes: [ok, st]
RECURSIVE SeqRun(_, _, _, _, _, _)
SeqRun(D, u, cs, st, eps, dv) ==
  IF cs = <<>> THEN [ok |-> TRUE, st |-> st]
  ELSE IF AppIn(D, u, cs[1], st, eps, dv) # "T" THEN [ok |-> FALSE, st |-> st]
  ELSE LET s == SuccIn(D, u, cs[1], st, eps, dv)
       IN  IF ~s.ok THEN [ok |-> FALSE, st |-> st] ELSE SeqRun(D, u, Tail(cs), s.st, eps, dv)

Perms(cs) == {[i \in DOMAIN cs |-> cs[p[i]]] : p \in Permutations(DOMAIN cs)}

Commute(D, u, cs, st, eps, dv) ==
  /\ \A p \in Perms(cs) : SeqRun(D, u, p, st, eps, dv).ok
  /\ \A p \in Perms(cs) : SeqRun(D, u, p, st, eps, dv).st = SeqRun(D, u, cs, st, eps, dv).st

(* C16: applying a joint action.  [kind: "any" | "err" | "st", st] *)
JointExp(D, u, members, st, allow, eps, dv) ==
  LET cs == Active(members)
      apps == {AppIn(D, u, cs[i], st, eps, dv) : i \in DOMAIN cs}
  IN  IF "U" \in apps THEN [kind |-> "any"]
      ELSE IF "F" \in apps THEN (IF allow THEN [kind |-> "any"] ELSE [kind |-> "err"])
      ELSE IF Len(cs) <= 4 /\ Commute(D, u, cs, st, eps, dv)
           THEN [kind |-> "st", st |-> SeqRun(D, u, cs, st, eps, dv).st]
           ELSE [kind |-> "any"]

----------------------------------------------------------------------------
(* C15 *)

\* the executing agent of a call: the first argument that is an agent name
ExecAgent(c, agents) ==
  LET idx == {i \in DOMAIN c.args : c.args[i] \in Range(agents)}
  IN  IF idx = {} THEN "#none" ELSE c.args[CHOOSE i \in idx : \A j \in idx : i <= j]

\* members applied in slot order on the accumulating state, without asking whether
\* each is still applicable when its turn comes (what the library's joint application does)
RECURSIVE SlotFold(_, _, _, _, _, _)
SlotFold(D, u, cs, st, eps, dv) ==
  IF cs = <<>> THEN [ok |-> TRUE, st |-> st]
  ELSE LET s == SuccIn(D, u, cs[1], st, eps, dv)
       IN  IF ~s.ok THEN [ok |-> FALSE, st |-> st] ELSE SlotFold(D, u, Tail(cs), s.st, eps, dv)

\* atoms added / deleted and fluents written by the effects of call c that fire in st
\* plain = TRUE leaves the universally quantified effects out (what the converter's test sees, see
\* "ConvertForallUnseen" below)
PlainEffs(effs) == SelectSeq(FlattenEffs(effs), LAMBDA x : x.k # "forall")
AddsDelsP(D, u, c, st, eps, plain) ==
  LET a == ActionNamed(D, c.act)
      S == SimpleOf({g \in Groups(IF plain THEN PlainEffs(a.eff) ELSE a.eff, EnvOfCall(a, c.args), u) : GroupTruth(g, st, u, eps, {}) = "T"})
  IN  [adds |-> AddsOf(S), dels |-> DelsOf(S), upds |-> {Target(x) : x \in UpdsOf(S)}]

\* what the converter's interference test does see: an atom added by one member and deleted
\* by another, a fluent written by two members
AddsDels(D, u, c, st, eps) == AddsDelsP(D, u, c, st, eps, FALSE)
NoEffectClashP(D, u, cs, st, eps, plain) ==
  \A i, j \in DOMAIN cs : i # j =>
     LET x == AddsDelsP(D, u, cs[i], st, eps, plain)
         y == AddsDelsP(D, u, cs[j], st, eps, plain)
     IN  x.adds \cap y.dels = {} /\ x.upds \cap y.upds = {}
NoEffectClash(D, u, cs, st, eps) == NoEffectClashP(D, u, cs, st, eps, FALSE)
\* some member has a universally quantified effect
SomeForall(D, cs) == \E i \in DOMAIN cs : \E k \in DOMAIN FlattenEffs(ActionNamed(D, cs[i].act).eff) :
                        FlattenEffs(ActionNamed(D, cs[i].act).eff)[k].k = "forall"

RECURSIVE RunJoint(_, _, _, _, _, _)
\* the joint plan executed step by step; each step must be applicable and commute.
\* Known deviation "ConvertNonCommuting": the converter's interference test never looks
\* at preconditions, so it may put into one step members that are all applicable in the
\* step's pre-state but do not commute (one deletes / adds what another requires); such a
\* step is then judged as the library executes it, in slot order.  The deviation does not
\* cover clashes between the members' effects, which the converter does test.
RunJoint(D, u, joint, st, eps, dv) ==
  IF joint = <<>> THEN [ok |-> TRUE, st |-> st]
  ELSE LET cs == Active(joint[1])
           allApp == \A i \in DOMAIN cs : AppIn(D, u, cs[i], st, eps, dv) = "T"
       IN
       IF allApp /\ Commute(D, u, cs, st, eps, dv)
       THEN RunJoint(D, u, Tail(joint), SeqRun(D, u, cs, st, eps, dv).st, eps, dv)
       \* (from such a step on the converter's running state is no longer the plan's: whether the later
       \*  actions of the plan are applicable in it is not determined by the plan being valid, so the rest of
       \*  the joint plan is held to the structural clauses of ValidConversion only)
       ELSE IF allApp /\ "ConvertNonCommuting" \in dv /\ NoEffectClash(D, u, cs, st, eps) /\ SlotFold(D, u, cs, st, eps, dv).ok
       THEN [ok |-> TRUE, st |-> SlotFold(D, u, cs, st, eps, dv).st]
       \* Known deviation "ConvertForallUnseen": the converter extracts the effects of a member from its
       \* grounded unconditional and `when' effects only; what an action does under a forall is never
       \* grounded there, so a clash that goes through a universally quantified effect is not seen.
       ELSE IF allApp /\ "ConvertForallUnseen" \in dv /\ SomeForall(D, cs) /\ NoEffectClashP(D, u, cs, st, eps, TRUE)
               /\ SlotFold(D, u, cs, st, eps, dv).ok
       THEN [ok |-> TRUE, st |-> SlotFold(D, u, cs, st, eps, dv).st]
       ELSE [ok |-> FALSE, st |-> st]

\* the state before plan[i] in the sequential run
RECURSIVE SeqStateAt(_, _, _, _, _, _, _)
SeqStateAt(D, u, plan, i, st, eps, dv) ==
  IF i = 1 THEN st ELSE SeqStateAt(D, u, Tail(plan), i - 1, SuccIn(D, u, plan[1], st, eps, dv).st, eps, dv)

\* Under "ConvertNonCommuting": a window plan[i..j] of consecutive actions by distinct agents, all
\* applicable in the state before plan[i] and without effect clash, that does not commute there.
\* A greedy packer that ignores preconditions puts such a window into one step; from then on its
\* state departs from the plan's, and a later action of the plan may be inapplicable in it (the
\* library then raises).  Only plans with such a window may be refused.
NonCommutingWindow(D, u, plan, agents, st, eps, dv, plain) ==
  \E i \in DOMAIN plan : \E j \in (i + 1)..Len(plan) :
     LET cs == SubSeq(plan, i, j)
         s == SeqStateAt(D, u, plan, i, st, eps, dv)
     IN  /\ j - i + 1 <= Len(agents)
         /\ \A a, b \in DOMAIN cs : a # b => ExecAgent(cs[a], agents) # ExecAgent(cs[b], agents)
         /\ \A a \in DOMAIN cs : AppIn(D, u, cs[a], s, eps, dv) = "T"
         /\ NoEffectClashP(D, u, cs, s, eps, plain)
         /\ (plain => SomeForall(D, cs))
         /\ ~Commute(D, u, cs, s, eps, dv)

\* the calls of one agent, in order of occurrence
OfAgent(calls, ag, agents) == SelectSeq(calls, LAMBDA c : ExecAgent(c, agents) = ag)
FlatJoint(joint) == FlattenSeq([i \in DOMAIN joint |-> Active(joint[i])])

CountIn(s, x) == Cardinality({i \in DOMAIN s : s[i] = x})

ValidConversion(D, u, seqPlan, joint, agents, st0, eps, dv) ==
  LET flat == FlatJoint(joint) IN
  \* (1) one slot per agent, each holding nop or an action of that agent
  /\ \A i \in DOMAIN joint :
        /\ Len(joint[i]) = Len(agents)
        /\ \A j \in DOMAIN agents : IsNop(joint[i][j]) \/ ExecAgent(joint[i][j], agents) = agents[j]
  \* (2) every action exactly once
  /\ Len(flat) = Len(seqPlan)
  /\ \A i \in DOMAIN seqPlan : CountIn(flat, seqPlan[i]) = CountIn(seqPlan, seqPlan[i])
  \* (3) each agent's actions in their original relative order
  /\ \A j \in DOMAIN agents : OfAgent(flat, agents[j], agents) = OfAgent(seqPlan, agents[j], agents)
  \* (4) members applicable in the step's pre-state and not interfering, (5) same final state
  \* (under "ConvertNonCommuting" a plan with a non-commuting step need only be executable
  \*  in slot order: its final state is then order dependent and not compared)
  /\ LET rj == RunJoint(D, u, joint, st0, eps, dv)
         strict == RunJoint(D, u, joint, st0, eps, dv \ {"ConvertNonCommuting", "ConvertForallUnseen"})
         rs == SeqRun(D, u, seqPlan, st0, eps, dv)
     IN  rj.ok /\ (strict.ok => rj.st = rs.st)

----------------------------------------------------------------------------
(* greedy packing as a step relation: st = state before the step under     *)
(* construction, cur = that step (slots), rest = unconsumed plan.          *)
(* OkToAdd(mode, ...) is the interference test, selected by `mode'.        *)

SlotOf(ag, agents) == CHOOSE j \in DOMAIN agents : agents[j] = ag
EmptyStep(agents) == [j \in DOMAIN agents |-> Nop]

\* the interference test of the packer.  "semantic": the new member is
\* applicable in the step's pre-state and the enlarged step commutes.
\* "syntactic-no-predel" (negative control): applicable, and no add/delete
\* clash between the members' effects - but a member may delete another
\* member's precondition.

OkToAdd(mode, D, u, cs, c, st, eps) ==
  /\ AppIn(D, u, c, st, eps, {}) = "T"
  /\ IF mode = "semantic" THEN Commute(D, u, Append(cs, c), st, eps, {})
     ELSE \A i \in DOMAIN cs :
            LET x == AddsDels(D, u, cs[i], st, eps)  y == AddsDels(D, u, c, st, eps)
            IN  x.adds \cap y.dels = {} /\ x.dels \cap y.adds = {} /\ x.upds \cap y.upds = {}

RECURSIVE Pack(_, _, _, _, _, _, _, _)
Pack(mode, D, u, rest, cur, st, agents, eps) ==
  IF rest = <<>> THEN (IF Active(cur) = <<>> THEN <<>> ELSE <<cur>>)
  ELSE LET c == rest[1]  j == SlotOf(ExecAgent(c, agents), agents) IN
       IF Active(cur) = <<>> THEN Pack(mode, D, u, Tail(rest), [cur EXCEPT ![j] = c], st, agents, eps)
       ELSE IF IsNop(cur[j]) /\ OkToAdd(mode, D, u, Active(cur), c, st, eps)
            THEN Pack(mode, D, u, Tail(rest), [cur EXCEPT ![j] = c], st, agents, eps)
            ELSE <<cur>> \o Pack(mode, D, u, rest, EmptyStep(agents), SeqRun(D, u, Active(cur), st, eps, {}).st, agents, eps)
=============================================================================
