-------------------------------- MODULE Combine --------------------------------
(***************************************************************************)
(* Combining per-agent domain files (C17): the union of their types,       *)
(* constants, predicates, functions and actions, read in some discovery    *)
(* order.  The vocabulary of the union does not depend on that order.      *)
(***************************************************************************)
EXTENDS Syntax

DedupByName(seq) ==   \* keep the last declaration of each name, in first-occurrence order
  LET names == [i \in DOMAIN seq |-> seq[i].name]
      firsts == SelectSeq([i \in DOMAIN seq |-> i], LAMBDA i : \A j \in 1..(i - 1) : names[j] # names[i])
  IN  [k \in DOMAIN firsts |-> seq[CHOOSE j \in DOMAIN seq : names[j] = names[firsts[k]] /\ \A m \in DOMAIN seq : names[m] = names[firsts[k]] => m <= j]]
DedupPairs(seq) == SetToSeq({seq[i] : i \in DOMAIN seq})

DummyPred == [name |-> "dummy-additional-predicate", params |-> <<>>]
DummyActs ==
  << [name |-> "dummy-add-predicate-action", params |-> <<<<"?agent", "object">>>>, pre |-> TrueF, preHead |-> "empty", effHead |-> "and",
      eff |-> <<[k |-> "add", p |-> "dummy-additional-predicate", a |-> <<>>]>>],
     [name |-> "dummy-del-predicate-action", params |-> <<<<"?agent", "object">>>>, pre |-> TrueF, preHead |-> "empty", effHead |-> "and",
      eff |-> <<[k |-> "del", p |-> "dummy-additional-predicate", a |-> <<>>]>>] >>

UnionDomain(parts, dummy) ==
  LET cat(f(_)) == FlattenSeq([i \in DOMAIN parts |-> f(parts[i])]) IN
  [ok |-> TRUE, name |-> parts[Len(parts)].name, reqs |-> UNION {parts[i].reqs : i \in DOMAIN parts},
   typeDecl |-> DedupPairs(cat(LAMBDA d : d.typeDecl)),
   consts |-> DedupPairs(cat(LAMBDA d : d.consts)),
   preds |-> DedupByName(cat(LAMBDA d : d.preds) \o (IF dummy THEN <<DummyPred>> ELSE <<>>)),
   funcs |-> DedupByName(cat(LAMBDA d : d.funcs)),
   actions |-> DedupByName(cat(LAMBDA d : d.actions) \o (IF dummy THEN DummyActs ELSE <<>>))]

=============================================================================
