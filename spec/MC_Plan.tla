-------------------------------- MODULE MC_Plan --------------------------------
(***************************************************************************)
(* Plans over a numeric/STRIPS micro-domain with a conditional effect      *)
(* (C04).  The plan grows one call at a time - valid and invalid calls at  *)
(* every position - while the *incremental* executor (the shape of the     *)
(* exporter's loop: keep the last post-state, append one triplet per line) *)
(* extends the trajectory; the invariants compare it with the declarative  *)
(* Plan!Run of the whole plan and state the refusal rule.                  *)
(***************************************************************************)
EXTENDS PlanFamily

VARIABLES init, allow, plan, traj, cur
vars == <<init, allow, plan, traj, cur>>

Init == init \in Inits /\ allow \in BOOLEAN /\ plan = <<>> /\ traj = <<>> /\ cur = init
Next == /\ Len(plan) < MaxLen
        /\ \E c \in Calls :
             LET r == StepOf(D, U, c, cur, allow, EpsM, {}) IN
             /\ plan' = Append(plan, c)
             /\ traj' = Append(traj, [pre |-> cur, op |-> c, post |-> r.post])
             /\ cur' = r.post
        /\ UNCHANGED <<init, allow>>
Spec == Init /\ [][Next]_vars

\* the incremental executor computes the declarative run
RunRefines == LET r == Run(D, U, plan, init, allow, EpsM, {}) IN ~r.open /\ r.steps = traj
ChainHolds == Chain(traj, init) /\ Len(traj) = Len(plan)
\* refusal: an inapplicable step leaves the state as it is unless allowed; an
\* applicable or allowed step yields the successor
Applicable(c, st) == Holds3(ActionNamed(D, c.act).pre, EnvOfCall(ActionNamed(D, c.act), c.args), st, U, EpsM, {}) = "T"
SuccOf(c, st) == Succ(ActionNamed(D, c.act).eff, EnvOfCall(ActionNamed(D, c.act), c.args), st, U, EpsM, {}).st
RefusalRule == \A i \in DOMAIN traj :
  IF Applicable(traj[i].op, traj[i].pre) \/ allow THEN traj[i].post = SuccOf(traj[i].op, traj[i].pre)
  ELSE traj[i].post = traj[i].pre
\* when every step is applicable the switch makes no difference
SwitchIrrelevant == (\A i \in DOMAIN traj : Applicable(traj[i].op, traj[i].pre)) =>
  Run(D, U, plan, init, TRUE, EpsM, {}).steps = Run(D, U, plan, init, FALSE, EpsM, {}).steps
\* negative controls: (a) the switch also waives the conditions of `when'
\* effects; (b) inapplicable steps are applied although not allowed
BadSwitchWaivesWhen == allow =>
  \A i \in DOMAIN traj : traj[i].post = ApplySeq(SetToSeq(Groups(ActionNamed(D, traj[i].op.act).eff,
        EnvOfCall(ActionNamed(D, traj[i].op.act), traj[i].op.args), U)), traj[i].pre, traj[i].pre, FALSE)
BadNoRefusal == \A i \in DOMAIN traj : traj[i].post = SuccOf(traj[i].op, traj[i].pre)
=============================================================================
