------------------------------- MODULE MC_Types -------------------------------
(* Every forest on the names Names, every order of its declaration groups, *)
(* grouped or split into singletons, object-children with or without       *)
(* "- object": reading the declarations back gives the forest.             *)
EXTENDS Types

CONSTANT Names

VARIABLES par, order, split, trail, omit
vars == <<par, order, split, trail, omit>>

Init == /\ par \in Forests(Names)
        /\ order \in {o \in [1..Cardinality(GroupsOf(par)) -> GroupsOf(par)] : Range(o) = GroupsOf(par)}
        /\ split \in BOOLEAN
        /\ trail \in BOOLEAN
        /\ omit \in BOOLEAN
Next == UNCHANGED vars
Spec == Init /\ [][Next]_vars

\* omit: children of object that are somebody's parent are not declared at all
\* (they then occur on right-hand sides only)
Parents == {par[c] : c \in DOMAIN par}
Pruned == IF ~omit THEN order
          ELSE SelectSeq([i \in DOMAIN order |->
                            IF order[i].p = "object" THEN [p |-> "object", cs |-> order[i].cs \ Parents] ELSE order[i]],
                         LAMBDA g : g.cs # {})
Written == IF split THEN Singles(Pruned) ELSE Pruned
Tokens == Render(Written, trail)

\* a parent that only occurs on right-hand sides is read as a child of object
ReadBack == LET rd == ReadForest(Tokens) IN
  /\ DOMAIN rd = Names
  /\ \A n \in Names : rd[n] = par[n]
TwoPhaseRefines == ReadBack /\ Closure(ReadForest(Tokens)) = Closure(par)

\* negative control: the one-pass algorithm
BadOnePass == \A a, b \in Names : OnePassSub(Written, a, b) = SubType(par, a, b)
=============================================================================
