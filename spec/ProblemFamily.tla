---------------------------- MODULE ProblemFamily -----------------------------
(***************************************************************************)
(* A family of problems over one typed domain with constants (C05): a few  *)
(* well-formed base problems that together use typed / grouped / untyped   *)
(* object lists, objects of subtypes, constants as arguments, repeated     *)
(* arguments, zero-arity atoms, integer / decimal / negative values and    *)
(* numeric goals - and *every single-point corruption* of each of them:    *)
(* an argument replaced by an object of a non-conforming type (sibling or  *)
(* proper supertype), by an undeclared name, an argument added or removed, *)
(* an undeclared predicate / function, in initial facts, initial fluents,  *)
(* goal literals and goal comparisons; and another domain name.            *)
(***************************************************************************)
EXTENDS Syntax

\* the domain, in the shape Grammar!DomainOfTree produces
PDom ==
  [ok |-> TRUE, name |-> "pd", reqs |-> {":typing"},
   typeDecl |-> <<<<"t1", "object">>, <<"t2", "t1">>, <<"t3", "object">>>>,
   consts |-> <<<<"k", "t3">>, <<"c1", "t1">>>>,
   preds |-> <<[name |-> "p", params |-> <<<<"?a", "t1">>>>],
               [name |-> "q", params |-> <<<<"?a", "t1">>, <<"?b", "object">>>>],
               [name |-> "r", params |-> <<>>],
               [name |-> "s", params |-> <<<<"?a", "t3">>>>],
               [name |-> "w", params |-> <<<<"?a", "object">>, <<"?b", "t2">>>>]>>,
   funcs |-> <<[name |-> "f", params |-> <<<<"?a", "t1">>>>],
               [name |-> "g", params |-> <<>>],
               [name |-> "h", params |-> <<<<"?a", "object">>, <<"?b", "t2">>>>]>>,
   actions |-> <<>>]

PObjs == <<<<"o1", "t2">>, <<"o2", "t1">>, <<"o3", "t3">>, <<"o4", "t2">>, <<"o5", "object">>>>

Fl(f, a) == [k |-> "fl", f |-> f, a |-> a]
Num(n, d) == [k |-> "num", v |-> <<n, d>>]

Base ==
  << [name |-> "b1", domain |-> "pd", objs |-> PObjs,
      facts |-> << <<"p", <<"o1">>>>, <<"q", <<"o2", "o3">>>>, <<"r", <<>>>>, <<"s", <<"k">>>>, <<"w", <<"o5", "o4">>>> >>,
      fls   |-> << <<"f", <<"o1">>, <<3, 1>>>>, <<"g", <<>>, <<-5, 2>>>>, <<"h", <<"o5", "o4">>, <<1, 4>>>> >>,
      glits |-> << <<"p", <<"o2">>>> >>,
      gcmps |-> << [k |-> "cmp", op |-> ">=", l |-> Fl("f", <<"o2">>), r |-> Num(2, 1)] >>],
     [name |-> "b2", domain |-> "pd", objs |-> PObjs,
      facts |-> << <<"q", <<"c1", "k">>>>, <<"q", <<"o1", "o1">>>>, <<"s", <<"o3">>>> >>,
      fls   |-> << <<"f", <<"c1">>, <<0, 1>>>>, <<"h", <<"k", "o1">>, <<7, 1>>>> >>,
      glits |-> << <<"q", <<"o4", "o5">>>>, <<"r", <<>>>>, <<"w", <<"o2", "o1">>>> >>,
      gcmps |-> << [k |-> "cmp", op |-> "<", l |-> [k |-> "bin", op |-> "+", l |-> Fl("g", <<>>), r |-> Fl("h", <<"o3", "o4">>)], r |-> Num(21, 2)] >>],
     [name |-> "b3", domain |-> "pd", objs |-> <<<<"o1", "t2">>, <<"o5", "object">>>>,
      facts |-> <<>>, fls |-> <<>>, glits |-> <<>>, gcmps |-> <<>>] >>

\* replacement names for an argument whose required type is ty: objects of a
\* non-conforming type, and an undeclared name
WrongFor(P, ty) ==
  {P.objs[i][1] : i \in {j \in DOMAIN P.objs : ~SubType(ParentOf(PDom.typeDecl), P.objs[j][2], ty)}}
  \cup {PDom.consts[i][1] : i \in {j \in DOMAIN PDom.consts : ~SubType(ParentOf(PDom.typeDecl), PDom.consts[j][2], ty)}}
  \cup {"nosuch"}

ArgCorruptions(P, decls, g) ==
  \* g = <<name, args>>: every single-argument replacement by a name that does not
  \* conform at that position, one argument more, one less, an unknown symbol
  LET tys == ParamTypesOf(decls, g[1]) IN
  UNION {{<<g[1], [g[2] EXCEPT ![i] = w]>> : w \in WrongFor(P, tys[i])} : i \in DOMAIN g[2]}
  \cup {<<g[1], Append(g[2], "o1")>>}
  \cup (IF g[2] # <<>> THEN {<<g[1], SubSeq(g[2], 1, Len(g[2]) - 1)>>} ELSE {})
  \cup {<<"undeclared", g[2]>>}

\* keep only replacements that really are ill-typed at their position
BadArgs(P, decls, g) ==
  {c \in ArgCorruptions(P, decls, g) : ~WFGround(PDom, PairsToFn(P.objs), decls, c)}

RECURSIVE ReplaceFl(_, _, _)
ReplaceFl(e, old, new) ==
  CASE e.k = "fl"  -> IF <<e.f, e.a>> = old THEN Fl(new[1], new[2]) ELSE e
    [] e.k = "bin" -> [e EXCEPT !.l = ReplaceFl(e.l, old, new), !.r = ReplaceFl(e.r, old, new)]
    [] OTHER -> e

\* (set comprehension with dependent ranges, written out)
FactCorr(P) == UNION {{[kind |-> "fact", P |-> [P EXCEPT !.facts[i] = c]] : c \in BadArgs(P, PDom.preds, P.facts[i])} : i \in DOMAIN P.facts}
FlCorr(P)   == UNION {{[kind |-> "fluent", P |-> [P EXCEPT !.fls[i] = <<c[1], c[2], P.fls[i][3]>>]] :
                          c \in BadArgs(P, PDom.funcs, <<P.fls[i][1], P.fls[i][2]>>)} : i \in DOMAIN P.fls}
GLitCorr(P) == UNION {{[kind |-> "goal-literal", P |-> [P EXCEPT !.glits[i] = c]] : c \in BadArgs(P, PDom.preds, P.glits[i])} : i \in DOMAIN P.glits}
GCmpCorr(P) == UNION {UNION {{[kind |-> "goal-fluent", P |-> [P EXCEPT !.gcmps[i] =
                                   [@ EXCEPT !.l = ReplaceFl(@, g, c), !.r = ReplaceFl(@, g, c)]]] :
                                c \in {x \in BadArgs(P, PDom.funcs, g) : x[1] # "undeclared"}}
                             : g \in FluentsOfExpr(P.gcmps[i].l) \cup FluentsOfExpr(P.gcmps[i].r)} : i \in DOMAIN P.gcmps}
ObjTypeCorr(P) == {[kind |-> "object-type", P |-> [P EXCEPT !.objs[i] = <<P.objs[i][1], "nosuchtype">>]] : i \in DOMAIN P.objs}
AllCorr(P) == FactCorr(P) \cup FlCorr(P) \cup GLitCorr(P) \cup GCmpCorr(P) \cup ObjTypeCorr(P)
              \cup {[kind |-> "domain", P |-> [P EXCEPT !.domain = "other"]]}

Styles == {"each", "group", "trail"}
\* the problem as the reader sees it
ReadP(P, style) == ProblemOfTree(TreeOfProblem(P, style))
=============================================================================
