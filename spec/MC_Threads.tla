------------------------------ MODULE MC_Threads ------------------------------
(***************************************************************************)
(* Several threads sharing one parsed Domain (C07: "repeating any call ...  *)
(* from several threads sharing one domain ... returns the same result").   *)
(*                                                                         *)
(* The machine has the grain of the implementation.  The shared heap is    *)
(* the action schema's signature dictionary (sig, a set of parameter       *)
(* names), a memo on the Domain object (memo: key -> value, filled lazily) *)
(* and nothing else: states, operators and results are thread local.  A    *)
(* thread runs a program of public calls; each call is a short sequence of *)
(* steps, one per read or write of the shared heap, so that TLC explores   *)
(* every interleaving of the steps of different threads:                   *)
(*   apply  (an action with a universal effect over ?q)                    *)
(*     a1 read the schema's parameters           (base)                    *)
(*     a2 open the scope of the quantified variable                        *)
(*     a3 ground the quantified effect in that scope (scope)               *)
(*     a4 close the scope                                                  *)
(*     a5 return [params |-> base, scope |-> scope]                        *)
(*   ground (Operator.ground / typed_action_call of the same action)       *)
(*     g1 read the schema's parameters; g2 return [params |-> ...]         *)
(*   subtype (a query answered through the Domain's memo)                  *)
(*     s1 look the key up; s2 (miss) publish the entry; s3 fill / read it; *)
(*     s4 return the answer                                                *)
(* Mode selects the design:                                                *)
(*   "pure"     the scope is a thread-local extension of the signature and *)
(*              the memo entry is published complete (the library)         *)
(*   "tempSig"  a2 inserts ?q into the shared signature and a4 pops it     *)
(*              (negative control; seeded change C07-thread-unsafe-temp-   *)
(*              signature): sequentially invisible                         *)
(*   "tornMemo" s2 publishes a placeholder that s3 completes afterwards    *)
(*              (negative control: check-then-act on a lazily built cache) *)
(* SeqOnly = TRUE restricts the scheduler to whole calls (no pre-emption): *)
(* all three designs satisfy every invariant there - which is exactly why  *)
(* sequential histories and the repository's tests cannot tell them apart. *)
(*                                                                         *)
(* ThreadFaithful  every result ever returned equals the result of the     *)
(*                 same call made on its own (Expected)                    *)
(* Restored        when no call is in progress the shared schema has its   *)
(*                 parsed value                                            *)
(* MaxSwitch bounds the number of context switches in the middle of a call *)
(* (MaxSwitch = 1 with two threads is the schedule family that             *)
(* harness/drive_threads.py forces on the library: A pre-empted at one     *)
(* point, B runs whole calls, A resumes).                                  *)
(***************************************************************************)
EXTENDS Integers, Sequences, FiniteSets, TLC

CONSTANTS Mode, SeqOnly, NThreads, NCalls, MaxSwitch

Threads == 1..NThreads
Calls == {"apply", "ground", "subtype"}
P0 == {"?x", "?y"}          \* the parsed signature
Q == "?q"                   \* the quantified variable of the universal effect
Key == "k"
Truth == "yes"              \* the answer the declarations dictate for Key
Placeholder == "pending"

Expected(c) ==
  CASE c = "apply"   -> [call |-> "apply", params |-> P0, scope |-> P0 \cup {Q}]
    [] c = "ground"  -> [call |-> "ground", params |-> P0]
    [] c = "subtype" -> [call |-> "subtype", ans |-> Truth]

VARIABLES sig, memo,        \* shared heap
          prog, pc, loc, results, switches, last
vars == <<sig, memo, prog, pc, loc, results, switches, last>>

NoLoc == [base |-> {}, scope |-> {}, ans |-> "none"]

Init ==
  /\ sig = P0
  /\ memo = [x \in {} |-> "none"]
  /\ prog \in [Threads -> UNION {[1..n -> Calls] : n \in 1..NCalls}]
  /\ pc = [t \in Threads |-> "idle"]
  /\ loc = [t \in Threads |-> NoLoc]
  /\ results = [t \in Threads |-> <<>>]
  /\ switches = 0
  /\ last = 0

Busy(t) == pc[t] # "idle"
Current(t) == prog[t][Len(results[t]) + 1]
HasNext(t) == Len(results[t]) < Len(prog[t])

\* scheduler bookkeeping: a switch away from a thread that is inside a call
Sched(t) ==
  /\ IF SeqOnly THEN \A u \in Threads \ {t} : ~Busy(u) ELSE TRUE
  /\ LET mid == last # 0 /\ last # t /\ Busy(last) IN
     /\ switches' = IF mid THEN switches + 1 ELSE switches
     /\ (mid => switches < MaxSwitch)
  /\ last' = t

Goto(t, l) == pc' = [pc EXCEPT ![t] = l]
Return(t, r) ==
  /\ results' = [results EXCEPT ![t] = Append(@, r)]
  /\ pc' = [pc EXCEPT ![t] = "idle"]
  /\ loc' = [loc EXCEPT ![t] = NoLoc]

Start(t) ==
  /\ pc[t] = "idle" /\ HasNext(t)
  /\ Goto(t, CASE Current(t) = "apply" -> "a1" [] Current(t) = "ground" -> "g1" [] OTHER -> "s1")
  /\ UNCHANGED <<sig, memo, prog, loc, results>>

A1(t) == /\ pc[t] = "a1" /\ loc' = [loc EXCEPT ![t].base = sig] /\ Goto(t, "a2")
         /\ UNCHANGED <<sig, memo, prog, results>>
A2(t) == /\ pc[t] = "a2"
         /\ IF Mode = "tempSig"
            THEN sig' = sig \cup {Q} /\ UNCHANGED loc
            ELSE loc' = [loc EXCEPT ![t].scope = loc[t].base \cup {Q}] /\ UNCHANGED sig
         /\ Goto(t, "a3") /\ UNCHANGED <<memo, prog, results>>
A3(t) == /\ pc[t] = "a3"
         /\ IF Mode = "tempSig"
            THEN loc' = [loc EXCEPT ![t].scope = sig]
            ELSE UNCHANGED loc
         /\ Goto(t, "a4") /\ UNCHANGED <<sig, memo, prog, results>>
A4(t) == /\ pc[t] = "a4"
         /\ sig' = IF Mode = "tempSig" THEN sig \ {Q} ELSE sig
         /\ Goto(t, "a5") /\ UNCHANGED <<memo, prog, loc, results>>
A5(t) == /\ pc[t] = "a5"
         /\ Return(t, [call |-> "apply", params |-> loc[t].base, scope |-> loc[t].scope])
         /\ UNCHANGED <<sig, memo, prog>>

G1(t) == /\ pc[t] = "g1" /\ loc' = [loc EXCEPT ![t].base = sig] /\ Goto(t, "g2")
         /\ UNCHANGED <<sig, memo, prog, results>>
G2(t) == /\ pc[t] = "g2" /\ Return(t, [call |-> "ground", params |-> loc[t].base])
         /\ UNCHANGED <<sig, memo, prog>>

S1(t) == /\ pc[t] = "s1"
         /\ IF Key \in DOMAIN memo
            THEN loc' = [loc EXCEPT ![t].ans = memo[Key]] /\ Goto(t, "s4")      \* hit: believe the entry
            ELSE UNCHANGED loc /\ Goto(t, "s2")
         /\ UNCHANGED <<sig, memo, prog, results>>
S2(t) == /\ pc[t] = "s2"
         /\ memo' = (Key :> (IF Mode = "tornMemo" THEN Placeholder ELSE Truth)) @@ memo
         /\ Goto(t, "s3") /\ UNCHANGED <<sig, prog, loc, results>>
S3(t) == /\ pc[t] = "s3"
         /\ memo' = [memo EXCEPT ![Key] = Truth]
         /\ loc' = [loc EXCEPT ![t].ans = Truth]
         /\ Goto(t, "s4") /\ UNCHANGED <<sig, prog, results>>
S4(t) == /\ pc[t] = "s4" /\ Return(t, [call |-> "subtype", ans |-> loc[t].ans])
         /\ UNCHANGED <<sig, memo, prog>>

Step(t) == Start(t) \/ A1(t) \/ A2(t) \/ A3(t) \/ A4(t) \/ A5(t) \/ G1(t) \/ G2(t)
           \/ S1(t) \/ S2(t) \/ S3(t) \/ S4(t)

Next == \E t \in Threads : Sched(t) /\ Step(t)

Spec == Init /\ [][Next]_vars

ThreadFaithful ==
  \A t \in Threads : \A i \in 1..Len(results[t]) : results[t][i] = Expected(prog[t][i])

Restored == (\A t \in Threads : ~Busy(t)) => sig = P0

\* a filled memo entry visible to an idle system is the truth
MemoSound == (\A t \in Threads : ~Busy(t)) => \A k \in DOMAIN memo : memo[k] = Truth

\* non-vacuity: some behaviour really pre-empts a call (refuted on purpose in the harness)
NeverPreempted == switches = 0
=============================================================================
