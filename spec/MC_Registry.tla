------------------------------ MODULE MC_Registry ------------------------------
(***************************************************************************)
(* Several domains alive in one process (C06, C17): each keeps the subtype  *)
(* relation of its own declarations, whatever is parsed before or after it. *)
(*                                                                         *)
(* The machine follows the implementation's shape: a Domain object points  *)
(* to a dictionary of type objects (a heap cell: name -> parent name); the  *)
(* parser fills the dictionary of the Domain it has just created; a        *)
(* subtype query walks the parent chain of the dictionary it is asked      *)
(* about.  Mode selects where the sharing goes wrong:                      *)
(*   "correct"       every Domain gets a dictionary of its own             *)
(*   "sharedDefault" every Domain starts from one module-level dictionary  *)
(*                   (negative control; the library's DEFAULT_TYPES defect) *)
(*   "nameCache"     answers are remembered by the pair of type *names*,   *)
(*                   across domains (negative control; two seeded changes) *)
(* Faithful: every answer ever given equals the closure of the asked       *)
(* domain's own declarations.  Behaviours are emitted for replay (Emit).   *)
(***************************************************************************)
EXTENDS Integers, Sequences, FiniteSets, TLC, Json, SequencesExt

CONSTANTS Mode, MaxLen

Names == {"ta", "tb", "tc"}
Root == "object"

\* the forests on Names: parent maps without a cycle
RECURSIVE Reaches(_, _, _, _)
Reaches(par, a, b, fuel) ==      \* b is a or an ancestor of a
  IF a = b THEN TRUE
  ELSE IF a = Root \/ fuel = 0 THEN FALSE
  ELSE Reaches(par, par[a], b, fuel - 1)
Acyclic(par) == \A n \in Names : Reaches(par, n, Root, Cardinality(Names))
Forests == {par \in [Names -> Names \cup {Root}] : Acyclic(par)}

Closure(par) == {<<a, b>> \in (Names \cup {Root}) \X (Names \cup {Root}) : Reaches(par @@ (Root :> Root), a, b, Cardinality(Names) + 1)}

VARIABLES heap,   \* cell -> [name -> parent] for the names registered in that dictionary
          next, dobj, want, memo, answers, hist
vars == <<heap, next, dobj, want, memo, answers, hist>>

DH(i) == "d" \o ToString(i)
Empty == [x \in {} |-> Root]

Init ==
  /\ heap = (0 :> Empty) /\ next = 1
  /\ dobj = [x \in {} |-> 0] /\ want = [x \in {} |-> Empty]
  /\ memo = [x \in {} |-> FALSE] /\ answers = {}
  /\ hist = <<>>

Parse(f) ==
  LET h == DH(Cardinality(DOMAIN dobj) + 1)
      c == IF Mode = "sharedDefault" THEN 0 ELSE next
      base == IF Mode = "sharedDefault" THEN heap[0] ELSE Empty
  IN  /\ heap' = (c :> (f @@ base)) @@ heap          \* the new declarations overwrite entries of the same name
      /\ next' = next + 1
      /\ dobj' = (h :> c) @@ dobj
      /\ want' = (h :> f) @@ want
      /\ hist' = Append(hist, [c |-> "Parse", h |-> h, decl |-> SetToSeq({<<n, f[n]>> : n \in Names})])
      /\ UNCHANGED <<memo, answers>>

\* the relation a walk over the parent chain of dictionary d gives (names the dictionary lacks have no parent)
Walk(d) ==
  LET par == heap[dobj[d]] IN
  {<<a, b>> \in (Names \cup {Root}) \X (Names \cup {Root}) :
     Reaches([n \in Names \cup {Root} |-> IF n \in DOMAIN par THEN par[n] ELSE Root], a, b, Cardinality(Names) + 1)}

Query(d) ==
  LET fresh == Walk(d)
      pairs == (Names \cup {Root}) \X (Names \cup {Root})
      ans == IF Mode = "nameCache"
             THEN {p \in pairs : IF p \in DOMAIN memo THEN memo[p] ELSE p \in fresh}
             ELSE fresh
  IN  /\ answers' = answers \cup {<<d, ans>>}
      /\ memo' = IF Mode = "nameCache" THEN [p \in pairs |-> IF p \in DOMAIN memo THEN memo[p] ELSE p \in fresh] ELSE memo
      /\ hist' = Append(hist, [c |-> "Query", d |-> d])
      /\ UNCHANGED <<heap, next, dobj, want>>

Next ==
  /\ Len(hist) < MaxLen
  /\ \/ \E f \in Forests : Parse(f)
     \/ \E d \in DOMAIN dobj : Query(d)
Spec == Init /\ [][Next]_vars

Faithful == \A x \in answers : x[2] = Closure(want[x[1]])

Emit == (Len(hist) = MaxLen /\ hist[MaxLen].c = "Query") => PrintT(<<"HIST", ToJson(hist)>>)
=============================================================================
