------------------------------ MODULE Gen_Domain -------------------------------
(* Emits DomainFamily: every lenient case, and the supported family in the  *)
(* renderings Gen_Core does not use (grouped parameter lists, bare when     *)
(* bodies), every Stride-th program.                                        *)
EXTENDS DomainFamily, Json, IOUtils

CONSTANT Stride

Progs == SetToSeq(IF Mode = "pre" THEN Formulas ELSE EffLists)
Picked == SelectSeq([i \in DOMAIN Progs |-> [i |-> i, pg |-> Progs[i]]], LAMBDA x : x.i % Stride = 0)
Sup == [j \in DOMAIN Picked |-> SupportedCase(Picked[j].pg, Mode, "group", TRUE)]
AllCases == (IF Mode = "pre" THEN LenientCases ELSE <<>>) \o Sup

ASSUME ndJsonSerialize(IOEnv.GEN_FILE, [i \in DOMAIN AllCases |->
          [id |-> i, kind |-> AllCases[i].kind, name |-> AllCases[i].name, mode |-> AllCases[i].mode, tree |-> AllCases[i].tree]])
ASSUME PrintT(<<"GENERATED", Len(AllCases)>>)
VARIABLE dummy
GInit == dummy = 0
GNext == UNCHANGED dummy
=============================================================================
