------------------------------- MODULE MC_Rename -------------------------------
(* Every program of CoreFamily as the body of act(?x ?y), renamed by every  *)
(* map of a set that covers fresh names, the swap, chains and partial maps: *)
(* same number / order / types of parameters and, for every state and call, *)
(* the same applicability and successor.                                    *)
EXTENDS CoreFamily, Rename

Maps == { [x \in {} |-> ""],
          ("?x" :> "?y") @@ ("?y" :> "?x"),                 \* swap
          ("?x" :> "?u") @@ ("?y" :> "?v"),                 \* fresh
          ("?x" :> "?y") @@ ("?y" :> "?u"),                 \* chain
          ("?x" :> "?x") @@ ("?y" :> "?u"),                 \* one parameter keeps its name
          ("?x" :> "?param_0") @@ ("?y" :> "?param_1") }

ActionFor(pg) ==
  [name |-> "act", params |-> <<<<"?x", "t1">>, <<"?y", "t2">>>>,
   pre |-> IF Mode = "pre" THEN pg ELSE TrueF,
   eff |-> IF Mode = "pre" THEN <<[k |-> "add", p |-> "p", a |-> <<"?x">>]>> ELSE pg]

VARIABLES prog, m, st, args, ph
vars == <<prog, m, st, args, ph>>
Init == /\ prog \in (IF Mode = "pre" THEN Formulas ELSE EffLists)
        /\ m \in Maps
        /\ st = [facts |-> {}, fl |-> [g \in FlKeys |-> <<0, 1>>]]
        /\ args = <<"a", "a">> /\ ph = 0
Next == /\ ph = 0 /\ ph' = 1 /\ prog' = prog /\ m' = m
        /\ st' \in States
        /\ args' \in {<<o1, o2>> : o1 \in Objs, o2 \in {"a"}}       \* ?y is of type t2: only a
Spec == Init /\ [][Next]_vars

A == ActionFor(prog)
B == RenameAction(A, m)
SameShape == /\ Len(B.params) = Len(A.params)
             /\ \A i \in DOMAIN A.params : B.params[i][2] = A.params[i][2] /\ B.params[i][1] = Rn(m, A.params[i][1])
SameBehaviour ==
  LET e1 == EnvOfCall(A, args)  e2 == EnvOfCall(B, args)
      s1 == Succ(A.eff, e1, st, U, EpsM, {})  s2 == Succ(B.eff, e2, st, U, EpsM, {})
  IN  /\ Holds3(A.pre, e1, st, U, EpsM, {}) = Holds3(B.pre, e2, st, U, EpsM, {})
      /\ s1.ok = s2.ok /\ (s1.ok => s1.st = s2.st)
\* negative control: the in-place loop keeps the parameter list intact
BadInPlace == Len(RenameInPlace(A, m)) = Len(A.params)
=============================================================================
