-------------------------------- MODULE Sexp ---------------------------------
(***************************************************************************)
(* The lexical layer: characters -> tokens -> parenthesis tree (C11).      *)
(*                                                                         *)
(* A text is a sequence of one-character strings.  Two formulations:       *)
(*                                                                         *)
(*  declarative   Tokens(text): comments (';' to end of line) removed,     *)
(*                letters lower-cased, '(' and ')' self-delimiting,        *)
(*                whitespace separating; then Parse(tokens): recursive     *)
(*                descent; Read(text) = the tree iff the tokens are exactly *)
(*                one balanced form, else Err.                             *)
(*  small step    Reader: one action per character over an explicit state  *)
(*                (mode, current token, stack of open lists, finished form, *)
(*                error flag) - the shape of a one-pass implementation.    *)
(*                                                                         *)
(* MC_Sexp checks that the Reader refines Read on every text up to a       *)
(* length bound; TraceSexp judges what the library returned for a text.    *)
(* Trees are tagged: [t |-> "s", v |-> token]  [t |-> "l", c |-> Seq].     *)
(* (Number tokens are not distinguished at this level.)                    *)
(***************************************************************************)
EXTENDS Integers, Sequences, TLC

LowerMap == [A |-> "a", B |-> "b", C |-> "c", D |-> "d", E |-> "e", F |-> "f", G |-> "g", H |-> "h",
             I |-> "i", J |-> "j", K |-> "k", L |-> "l", M |-> "m", N |-> "n", O |-> "o", P |-> "p",
             Q |-> "q", R |-> "r", S |-> "s", T |-> "t", U |-> "u", V |-> "v", W |-> "w", X |-> "x",
             Y |-> "y", Z |-> "z"]
Lower(c) == IF c \in DOMAIN LowerMap THEN LowerMap[c] ELSE c

NL == "\n"
CR == "\r"
IsWS(c) == c \in {" ", "\t", "\n", "\r", "\f"}
IsParen(c) == c \in {"(", ")"}

Err == [t |-> "err"]
SymT(v) == [t |-> "s", v |-> v]
ListT(c) == [t |-> "l", c |-> c]

\* A carriage return that is not followed by a line feed ends a line for a
\* file reader but not for a string split at "\n": texts containing one are
\* outside what the property fixes.
HasLoneCR(tx) == \E i \in DOMAIN tx : tx[i] = CR /\ (i = Len(tx) \/ tx[i + 1] # NL)

----------------------------------------------------------------------------
(* declarative: tokens, then recursive descent *)

RECURSIVE Tok(_, _, _, _, _)
Tok(tx, i, cur, com, acc) ==
  LET flush == IF cur = "" THEN acc ELSE Append(acc, cur) IN
  IF i > Len(tx) THEN flush
  ELSE LET c == tx[i] IN
    IF com THEN Tok(tx, i + 1, "", c # NL, acc)
    ELSE IF c = ";" THEN Tok(tx, i + 1, "", TRUE, flush)
    ELSE IF IsWS(c) THEN Tok(tx, i + 1, "", FALSE, flush)
    ELSE IF IsParen(c) THEN Tok(tx, i + 1, "", FALSE, Append(flush, c))
    ELSE Tok(tx, i + 1, cur \o Lower(c), FALSE, acc)

Tokens(tx) == Tok(tx, 1, "", FALSE, <<>>)

\* Parse one form starting at token i: [ok, tree, next]
RECURSIVE ParseAt(_, _), ParseList(_, _, _)
ParseAt(ts, i) ==
  IF i > Len(ts) THEN [ok |-> FALSE, tree |-> Err, next |-> i]
  ELSE IF ts[i] = "(" THEN ParseList(ts, i + 1, <<>>)
  ELSE IF ts[i] = ")" THEN [ok |-> FALSE, tree |-> Err, next |-> i]
  ELSE [ok |-> TRUE, tree |-> SymT(ts[i]), next |-> i + 1]
ParseList(ts, i, acc) ==
  IF i > Len(ts) THEN [ok |-> FALSE, tree |-> Err, next |-> i]
  ELSE IF ts[i] = ")" THEN [ok |-> TRUE, tree |-> ListT(acc), next |-> i + 1]
  ELSE LET r == ParseAt(ts, i)
       IN  IF r.ok THEN ParseList(ts, r.next, Append(acc, r.tree)) ELSE r

\* exactly one balanced top-level form and nothing after it
Read(tx) ==
  LET ts == Tokens(tx)
      r  == ParseAt(ts, 1)
  IN  IF r.ok /\ r.next = Len(ts) + 1 THEN r.tree ELSE Err

\* inputs on which the result is left open: a lone CR, or a bare symbol as the
\* whole top-level form (the property speaks of parenthesised text)
Open(tx) == HasLoneCR(tx) \/ (Tokens(tx) # <<>> /\ ~IsParen(Tokens(tx)[1]))

----------------------------------------------------------------------------
(* small step: the one-pass reader *)

RInit == [com |-> FALSE, cur |-> "", stack |-> <<>>, done |-> Err, err |-> FALSE]

\* a finished token or list goes into the innermost open list, or becomes the
\* finished top-level form; a second top-level form is an error
Emit(r, x) ==
  IF r.stack # <<>> THEN [r EXCEPT !.stack[Len(r.stack)] = Append(@, x)]
  ELSE IF r.done = Err THEN [r EXCEPT !.done = x]
  ELSE [r EXCEPT !.err = TRUE]

Flush(r) == IF r.cur = "" THEN r ELSE [Emit(r, SymT(r.cur)) EXCEPT !.cur = ""]

RStep(r, c) ==
  IF r.com THEN [r EXCEPT !.com = (c # NL)]
  ELSE IF c = ";" THEN [Flush(r) EXCEPT !.com = TRUE]
  ELSE IF IsWS(c) THEN Flush(r)
  ELSE IF c = "(" THEN
         LET f == Flush(r) IN
         IF f.stack = <<>> /\ f.done # Err THEN [f EXCEPT !.err = TRUE]
         ELSE [f EXCEPT !.stack = Append(@, <<>>)]
  ELSE IF c = ")" THEN
         LET f == Flush(r) IN
         IF f.stack = <<>> THEN [f EXCEPT !.err = TRUE]
         ELSE Emit([f EXCEPT !.stack = SubSeq(@, 1, Len(@) - 1)], ListT(f.stack[Len(f.stack)]))
  ELSE [r EXCEPT !.cur = @ \o Lower(c)]

RFinish(r) ==
  LET f == Flush(r)
  IN  IF f.err \/ f.stack # <<>> \/ f.done = Err THEN Err ELSE f.done

RECURSIVE RRun(_, _, _)
RRun(r, tx, i) == IF i > Len(tx) THEN r ELSE RRun(RStep(r, tx[i]), tx, i + 1)
ReadSmall(tx) == RFinish(RRun(RInit, tx, 1))
=============================================================================
