------------------------------- MODULE Syntax --------------------------------
(***************************************************************************)
(* Static semantics: which domain texts are inside the fragment the        *)
(* library must read faithfully (the Sup.. predicates), which are outside it *)
(* still PDDL (lenient: the only acceptable outcomes are "faithful" or     *)
(* "exception"), well-formedness of problems against a domain, and the     *)
(* vocabulary projection that is compared with the library's objects.      *)
(***************************************************************************)
EXTENDS Grammar

NoRepeat(a) == \A i, j \in DOMAIN a : i # j => a[i] # a[j]

\* argument list with later repetitions of an object removed (what a name-keyed
\* signature keeps) - used by the known deviation "RepeatedFluentArg"
RECURSIVE DedupAux(_, _)
DedupAux(a, seen) ==
  IF a = <<>> THEN <<>>
  ELSE IF a[1] \in seen THEN DedupAux(Tail(a), seen) ELSE <<a[1]>> \o DedupAux(Tail(a), seen \cup {a[1]})
DedupArgs(a) == DedupAux(a, {})

----------------------------------------------------------------------------
(* Supported fragment of formulas.  ctx = [preds, funcs : sets of names]    *)

RECURSIVE SupExpr(_, _)
SupExpr(e, ctx) ==
  CASE e.k = "num" -> TRUE
    [] e.k = "fl"  -> e.f \in ctx.funcs /\ NoRepeat(e.a)
    [] e.k = "bin" -> SupExpr(e.l, ctx) /\ SupExpr(e.r, ctx)
    [] OTHER -> FALSE                        \* nary, bad

\* a comparison must mention a fluent (comparisons of constants are outside the fragment)
RECURSIVE HasFluent(_)
HasFluent(e) ==
  CASE e.k = "fl"  -> TRUE
    [] e.k = "bin" -> HasFluent(e.l) \/ HasFluent(e.r)
    [] OTHER -> FALSE

SupLit(f, ctx) ==
  \/ f.k = "atom" /\ f.p \in ctx.preds /\ NoRepeat(f.a)
  \/ f.k = "not" /\ f.f.k = "atom" /\ f.f.p \in ctx.preds /\ NoRepeat(f.f.a)
  \/ f.k = "eq"
  \/ f.k = "not" /\ f.f.k = "eq"
  \/ f.k = "cmp" /\ SupExpr(f.l, ctx) /\ SupExpr(f.r, ctx) /\ (HasFluent(f.l) \/ HasFluent(f.r))

\* members of an and/or: literals, nested non-empty and/or, forall whose body is
\* and/or  (an empty member "()" inside a connective is outside the fragment)
RECURSIVE SupMember(_, _, _)
SupMember(f, ctx, inForall) ==
  \/ SupLit(f, ctx)
  \/ f.k \in {"and", "or"} /\ f.fs # <<>> /\ \A i \in DOMAIN f.fs : SupMember(f.fs[i], ctx, inForall)
  \/ /\ f.k = "forall" /\ ~inForall
     /\ f.f.k \in {"and", "or"}
     /\ \A i \in DOMAIN f.f.fs : SupMember(f.f.fs[i], ctx, TRUE)

\* a whole :precondition: () or (and member*)
SupPre(f, ctx) == f.k = "and" /\ \A i \in DOMAIN f.fs : SupMember(f.fs[i], ctx, FALSE)

\* the condition of a when: a literal or (and literal*)   (what the library's
\* effect parser takes; richer conditions are lenient)
SupCond(f, ctx) ==
  \/ SupLit(f, ctx)
  \/ f.k = "and" /\ f.fs # <<>> /\ \A i \in DOMAIN f.fs : SupMember(f.fs[i], ctx, FALSE)

SupSimple(e, ctx) ==
  \/ e.k \in {"add", "del"} /\ e.p \in ctx.preds /\ NoRepeat(e.a)
  \/ e.k = "upd" /\ e.op \in UpdOps /\ e.f \in ctx.funcs /\ NoRepeat(e.a) /\ SupExpr(e.e, ctx)

SupEff(e, ctx) ==
  \/ SupSimple(e, ctx)
  \/ e.k = "when" /\ SupCond(e.c, ctx) /\ e.es # <<>> /\ \A i \in DOMAIN e.es : SupSimple(e.es[i], ctx)
  \/ /\ e.k = "forall" /\ ~e.bare /\ SupCond(e.c, ctx)
     /\ e.es # <<>> /\ \A i \in DOMAIN e.es : SupSimple(e.es[i], ctx)

SupAction(a, ctx) ==
  /\ a.preHead \in {"and", "empty"} /\ SupPre(a.pre, ctx)
  /\ a.effHead = "and" /\ \A i \in DOMAIN a.eff : SupEff(a.eff[i], ctx)
  /\ \A i \in DOMAIN a.params : a.params[i][2] \notin {"#either", "#bad"}

CtxOf(D) == [preds |-> {D.preds[i].name : i \in DOMAIN D.preds},
             funcs |-> {D.funcs[i].name : i \in DOMAIN D.funcs}]

\* the declarations themselves are inside the fragment
SupDecls(D) ==
  /\ D.ok /\ D.name # "#bad"
  /\ \A i \in DOMAIN D.typeDecl : D.typeDecl[i][2] \notin {"#either", "#bad"} /\ D.typeDecl[i][1] # "#bad"
  /\ \A i \in DOMAIN D.consts : D.consts[i][2] \notin {"#either", "#bad"}
  /\ \A i \in DOMAIN D.preds : \A j \in DOMAIN D.preds[i].params : D.preds[i].params[j][2] \notin {"#either", "#bad"}
  /\ \A i \in DOMAIN D.funcs : \A j \in DOMAIN D.funcs[i].params : D.funcs[i].params[j][2] \notin {"#either", "#bad"}

----------------------------------------------------------------------------
(* Vocabulary of a domain as the spec reads it, in the shape the harness    *)
(* projects the library's Domain object into.                               *)

TypeNamesOf(D) == DOMAIN ParentOf(D.typeDecl)

VocabOf(D) ==
  [name    |-> D.name,
   reqs    |-> D.reqs,
   types   |-> {<<n, ParentOf(D.typeDecl)[n]>> : n \in TypeNamesOf(D)},
   consts  |-> {<<D.consts[i][1], D.consts[i][2]>> : i \in DOMAIN D.consts},
   preds   |-> {<<D.preds[i].name, [j \in DOMAIN D.preds[i].params |-> D.preds[i].params[j][2]]>> : i \in DOMAIN D.preds},
   funcs   |-> {<<D.funcs[i].name, [j \in DOMAIN D.funcs[i].params |-> D.funcs[i].params[j][2]]>> : i \in DOMAIN D.funcs},
   actions |-> {<<D.actions[i].name, D.actions[i].params>> : i \in DOMAIN D.actions}]

\* the same record built from the harness' JSON projection (arrays -> sets)
VocabOfJson(j) ==
  [name    |-> j.name,
   reqs    |-> Range(j.reqs),
   types   |-> Range(j.types),
   consts  |-> Range(j.consts),
   preds   |-> Range(j.preds),
   funcs   |-> Range(j.funcs),
   actions |-> Range(j.actions)]

ActionNamed(D, n) == D.actions[CHOOSE i \in DOMAIN D.actions : D.actions[i].name = n]
HasAction(D, n) == \E i \in DOMAIN D.actions : D.actions[i].name = n

ParamTypesOf(decls, n) ==
  LET d == decls[CHOOSE i \in DOMAIN decls : decls[i].name = n]
  IN  [j \in DOMAIN d.params |-> d.params[j][2]]
Declared(decls, n) == \E i \in DOMAIN decls : decls[i].name = n

----------------------------------------------------------------------------
(* Universe of a problem over a domain and well-formedness (C05).           *)

UniverseOf(D, objPairs) ==
  [parent |-> ParentOf(D.typeDecl), objs |-> PairsToFn(objPairs)]

\* type of a name that may be a problem object or a domain constant
TypeOfName(D, objs, n) ==
  IF n \in DOMAIN objs THEN objs[n]
  ELSE IF \E i \in DOMAIN D.consts : D.consts[i][1] = n
       THEN D.consts[CHOOSE i \in DOMAIN D.consts : D.consts[i][1] = n][2]
       ELSE "#none"

WFGround(D, objs, decls, g) ==
  /\ Declared(decls, g[1])
  /\ Len(g[2]) = Len(ParamTypesOf(decls, g[1]))
  /\ \A i \in DOMAIN g[2] :
        /\ TypeOfName(D, objs, g[2][i]) # "#none"
        /\ SubType(ParentOf(D.typeDecl), TypeOfName(D, objs, g[2][i]), ParamTypesOf(decls, g[1])[i])

RECURSIVE FluentsOfExpr(_)
FluentsOfExpr(e) ==
  CASE e.k = "fl"  -> {<<e.f, e.a>>}
    [] e.k = "bin" -> FluentsOfExpr(e.l) \cup FluentsOfExpr(e.r)
    [] OTHER -> {}

\* dv: known deviation "GoalFluentUnchecked" - the fluent terms inside numeric
\* goal conditions are not validated (type, arity, existence of the objects)
WFProblemD(D, P, dv) ==
  LET objs == PairsToFn(P.objs)
      tn   == TypeNamesOf(D) \cup {"object"}
  IN /\ P.ok /\ P.domain = D.name
     /\ \A i \in DOMAIN P.objs : P.objs[i][2] \in tn
     /\ P.init.shapeOk
     /\ \A g \in P.init.facts : WFGround(D, objs, D.preds, g)
     /\ \A g \in DOMAIN P.init.fl : WFGround(D, objs, D.funcs, g)
     /\ \A g \in P.goal.lits : WFGround(D, objs, D.preds, g)
     /\ ("GoalFluentUnchecked" \in dv
           \/ \A c \in P.goal.cmps : \A g \in FluentsOfExpr(c.l) \cup FluentsOfExpr(c.r) : WFGround(D, objs, D.funcs, g))

WFProblem(D, P) == WFProblemD(D, P, {})

\* a call is type correct when every argument is an object or constant whose
\* type conforms to the parameter's
TypeCorrectCall(D, objs, a, args) ==
  /\ Len(args) = Len(a.params)
  /\ \A i \in DOMAIN args :
        /\ TypeOfName(D, objs, args[i]) # "#none"
        /\ SubType(ParentOf(D.typeDecl), TypeOfName(D, objs, args[i]), a.params[i][2])

----------------------------------------------------------------------------
(* Grounding (C20): the literals and numeric expressions of a schema with   *)
(* every parameter replaced, position by position, by the call's argument.  *)
(* Quantified sub-formulas are not part of the reported grounding.          *)

RECURSIVE LitsOfF(_), CmpsOfF(_)
LitsOfF(f) ==
  CASE f.k = "atom" -> {[pos |-> TRUE, p |-> f.p, a |-> f.a]}
    [] f.k = "not" /\ f.f.k = "atom" -> {[pos |-> FALSE, p |-> f.f.p, a |-> f.f.a]}
    [] f.k \in {"and", "or"} -> UNION {LitsOfF(f.fs[i]) : i \in DOMAIN f.fs}
    [] OTHER -> {}
CmpsOfF(f) ==
  CASE f.k = "cmp" -> {f}
    [] f.k \in {"and", "or"} -> UNION {CmpsOfF(f.fs[i]) : i \in DOMAIN f.fs}
    [] OTHER -> {}

RECURSIVE GroundExpr(_, _, _)
GroundExpr(e, env, dedup) ==
  CASE e.k = "fl"  -> [k |-> "fl", f |-> e.f, a |-> IF dedup THEN DedupArgs(Args(e.a, env)) ELSE Args(e.a, env)]
    [] e.k = "bin" -> [e EXCEPT !.l = GroundExpr(e.l, env, dedup), !.r = GroundExpr(e.r, env, dedup)]
    [] OTHER -> e

\* type carried by an argument of a grounded literal: the parameter's type in
\* the action, a constant's own type
TermType(D, a, t) ==
  IF \E i \in DOMAIN a.params : a.params[i][1] = t
  THEN a.params[CHOOSE i \in DOMAIN a.params : a.params[i][1] = t][2]
  ELSE TypeOfName(D, [x \in {} |-> "object"], t)

GroundLit(D, a, env, l) ==
  [pos |-> l.pos, p |-> l.p, a |-> Args(l.a, env), ty |-> [i \in DOMAIN l.a |-> TermType(D, a, l.a[i])]]

\* one effect group as reported: adds, deletes, numeric updates
GroundGroup(D, a, env, es, dedup) ==
  [adds |-> {GroundLit(D, a, env, [pos |-> TRUE, p |-> es[i].p, a |-> es[i].a]) : i \in {j \in DOMAIN es : es[j].k = "add"}},
   dels |-> {GroundLit(D, a, env, [pos |-> FALSE, p |-> es[i].p, a |-> es[i].a]) : i \in {j \in DOMAIN es : es[j].k = "del"}},
   nums |-> {[op |-> es[i].op, t |-> GroundExpr([k |-> "fl", f |-> es[i].f, a |-> es[i].a], env, dedup), e |-> GroundExpr(es[i].e, env, dedup)]
               : i \in {j \in DOMAIN es : es[j].k = "upd"}}]

EnvOfCall(a, args) == [v \in {a.params[i][1] : i \in DOMAIN a.params} |->
                          args[CHOOSE i \in DOMAIN a.params : a.params[i][1] = v]]
=============================================================================
