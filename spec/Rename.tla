-------------------------------- MODULE Rename ---------------------------------
(***************************************************************************)
(* Renaming the parameters of an action (C18).                             *)
(*   declarative  RenameAction(a, m): simultaneous substitution of the     *)
(*                injective map m (old parameter name -> new name) in the  *)
(*                parameter list, the precondition and every effect; names *)
(*                that are not parameters (constants, quantified           *)
(*                variables) are left alone.                               *)
(*   small step   RenameInPlace(sig, order): the pop / re-insert loop over *)
(*                an ordered name-keyed signature, one parameter after the *)
(*                other (negative control: collapses overlapping maps).    *)
(* Behaviour is preserved: RenameAction(a, m) called with the same         *)
(* arguments is applicable in the same states and has the same successors. *)
(***************************************************************************)
EXTENDS Syntax

Rn(m, t) == IF t \in DOMAIN m THEN m[t] ELSE t
RnArgs(m, a) == [i \in DOMAIN a |-> Rn(m, a[i])]
Without(m, v) == [x \in DOMAIN m \ {v} |-> m[x]]

RECURSIVE RnExpr(_, _)
RnExpr(m, e) ==
  CASE e.k = "fl"  -> [e EXCEPT !.a = RnArgs(m, e.a)]
    [] e.k = "bin" -> [e EXCEPT !.l = RnExpr(m, e.l), !.r = RnExpr(m, e.r)]
    [] OTHER -> e

RECURSIVE RnF(_, _)
RnF(m, f) ==
  CASE f.k = "atom" -> [f EXCEPT !.a = RnArgs(m, f.a)]
    [] f.k = "not"  -> [f EXCEPT !.f = RnF(m, f.f)]
    [] f.k = "eq"   -> [f EXCEPT !.l = Rn(m, f.l), !.r = Rn(m, f.r)]
    [] f.k \in {"and", "or"} -> [f EXCEPT !.fs = [i \in DOMAIN f.fs |-> RnF(m, f.fs[i])]]
    [] f.k \in {"forall", "exists"} -> [f EXCEPT !.f = RnF(Without(m, f.v), f.f)]
    [] f.k = "cmp"  -> [f EXCEPT !.l = RnExpr(m, f.l), !.r = RnExpr(m, f.r)]
    [] OTHER -> f

RnSimple(m, e) ==
  CASE e.k \in {"add", "del"} -> [e EXCEPT !.a = RnArgs(m, e.a)]
    [] e.k = "upd" -> [e EXCEPT !.a = RnArgs(m, e.a), !.e = RnExpr(m, e.e)]
    [] OTHER -> e

RnEff(m, e) ==
  CASE e.k = "when" -> [e EXCEPT !.c = RnF(m, e.c), !.es = [i \in DOMAIN e.es |-> RnSimple(m, e.es[i])]]
    [] e.k = "forall" -> LET m2 == Without(m, e.v) IN
                         [e EXCEPT !.c = RnF(m2, e.c), !.es = [i \in DOMAIN e.es |-> RnSimple(m2, e.es[i])]]
    [] OTHER -> RnSimple(m, e)

RenameAction(a, m) ==
  [a EXCEPT !.params = [i \in DOMAIN a.params |-> <<Rn(m, a.params[i][1]), a.params[i][2]>>],
            !.pre = RnF(m, a.pre),
            !.eff = [i \in DOMAIN a.eff |-> RnEff(m, a.eff[i])]]

\* the map is admissible: injective on the parameters, defined on parameters only
Injective(a, m) ==
  LET ps == {a.params[i][1] : i \in DOMAIN a.params} IN
  /\ DOMAIN m = ps                     \* a renaming names every parameter (possibly by itself)
  /\ \A p, q \in ps : p # q => Rn(m, p) # Rn(m, q)

\* small step (as found): sig is a sequence of <<name, type>> standing for an
\* ordered dict; each step pops one old name and appends it under its new name,
\* overwriting an entry that already has that name
RECURSIVE InPlace(_, _, _)
InPlace(sig, olds, m) ==
  IF olds = <<>> THEN sig
  ELSE LET old == olds[1]
           ty  == (CHOOSE i \in DOMAIN sig : sig[i][1] = old)
       IN  IF \E i \in DOMAIN sig : sig[i][1] = old
           THEN LET t == sig[ty][2]
                    removed == SelectSeq(sig, LAMBDA x : x[1] # old /\ x[1] # Rn(m, old))
                IN  InPlace(Append(removed, <<Rn(m, old), t>>), Tail(olds), m)
           ELSE InPlace(sig, Tail(olds), m)
RenameInPlace(a, m) == InPlace(a.params, [i \in DOMAIN a.params |-> a.params[i][1]], m)
=============================================================================
