------------------------------ MODULE MC_Convert -------------------------------
(***************************************************************************)
(* Two agents, one shared item and a shared counter: every *valid*         *)
(* sequential plan up to MaxLen is packed greedily into joint actions.     *)
(* With the semantic interference test the result satisfies                *)
(* ValidConversion; with the weakened test (no "deletes a member's         *)
(* precondition" check) TLC finds a plan whose joint version is invalid.   *)
(* Joint actions themselves (C16): whenever the members of a step commute, *)
(* every permutation of the step reaches the same state.                   *)
(***************************************************************************)
EXTENDS MultiAgent

CONSTANT MaxLen
EpsM == <<1, 10000>>
At(p, a) == [k |-> "atom", p |-> p, a |-> a]
NotAt(p, a) == [k |-> "not", f |-> At(p, a)]
U == [parent |-> [agent |-> "object", item |-> "object"], objs |-> [a1 |-> "agent", a2 |-> "agent", i1 |-> "item"]]
Agents == <<"a1", "a2">>
D == [ok |-> TRUE, name |-> "ma", reqs |-> {":typing"}, typeDecl |-> <<<<"agent", "object">>, <<"item", "object">>>>, consts |-> <<>>,
      preds |-> <<[name |-> "free", params |-> <<<<"?o", "item">>>>], [name |-> "has", params |-> <<<<"?a", "agent">>, <<"?o", "item">>>>],
                  [name |-> "ready", params |-> <<<<"?a", "agent">>>>]>>,
      funcs |-> <<[name |-> "total", params |-> <<>>]>>,
      actions |-> <<
        [name |-> "take", params |-> <<<<"?a", "agent">>, <<"?o", "item">>>>, preHead |-> "and", effHead |-> "and",
         pre |-> [k |-> "and", fs |-> <<At("free", <<"?o">>)>>],
         eff |-> <<[k |-> "del", p |-> "free", a |-> <<"?o">>], [k |-> "add", p |-> "has", a |-> <<"?a", "?o">>]>>],
        [name |-> "put", params |-> <<<<"?a", "agent">>, <<"?o", "item">>>>, preHead |-> "and", effHead |-> "and",
         pre |-> [k |-> "and", fs |-> <<At("has", <<"?a", "?o">>)>>],
         eff |-> <<[k |-> "del", p |-> "has", a |-> <<"?a", "?o">>], [k |-> "add", p |-> "free", a |-> <<"?o">>]>>],
        [name |-> "prep", params |-> <<<<"?a", "agent">>>>, preHead |-> "and", effHead |-> "and",
         pre |-> [k |-> "and", fs |-> <<NotAt("ready", <<"?a">>)>>],
         eff |-> <<[k |-> "add", p |-> "ready", a |-> <<"?a">>],
                   [k |-> "upd", op |-> "increase", f |-> "total", a |-> <<>>, e |-> [k |-> "num", v |-> <<1, 1>>]]>>],
        [name |-> "look", params |-> <<<<"?a", "agent">>, <<"?o", "item">>>>, preHead |-> "and", effHead |-> "and",
         pre |-> [k |-> "and", fs |-> <<At("free", <<"?o">>), At("ready", <<"?a">>)>>],
         eff |-> <<[k |-> "del", p |-> "ready", a |-> <<"?a">>]>>]>>]

Calls == {[act |-> n, args |-> <<a, "i1">>] : n \in {"take", "put", "look"}, a \in {"a1", "a2"}}
         \cup {[act |-> "prep", args |-> <<a>>] : a \in {"a1", "a2"}}
Init0 == [facts |-> {<<"free", <<"i1">>>>, <<"ready", <<"a2">>>>}, fl |-> (<<"total", <<>>>> :> <<0, 1>>)]

VARIABLES plan, cur
vars == <<plan, cur>>
Init == plan = <<>> /\ cur = Init0
\* only valid plans: the next call is applicable in the state reached so far
Next == /\ Len(plan) < MaxLen
        /\ \E c \in Calls :
             /\ AppIn(D, U, c, cur, EpsM, {}) = "T"
             /\ plan' = Append(plan, c)
             /\ cur' = SuccIn(D, U, c, cur, EpsM, {}).st
Spec == Init /\ [][Next]_vars

Packed(mode) == Pack(mode, D, U, plan, EmptyStep(Agents), Init0, Agents, EpsM)
GreedyIsValid == ValidConversion(D, U, plan, Packed("semantic"), Agents, Init0, EpsM, {})
\* negative control
BadNoPreDel == ValidConversion(D, U, plan, Packed("syntactic-no-predel"), Agents, Init0, EpsM, {})
\* C16 on the steps the packer produced: any order of the members, same state
JointOrderFree ==
  LET J == Packed("semantic") IN
  \A i \in DOMAIN J : \A s \in {cur, Init0} :
     LET cs == Active(J[i]) IN
     Commute(D, U, cs, s, EpsM, {}) => \A p \in Perms(cs) : SeqRun(D, U, p, s, EpsM, {}).st = JointExp(D, U, J[i], s, FALSE, EpsM, {}).st
=============================================================================
