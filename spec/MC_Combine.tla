------------------------------ MODULE MC_Combine -------------------------------
(* Every cover of a small vocabulary (2 types, 2 predicates, 1 function, 2  *)
(* actions, 1 constant) by up to three overlapping parts, every discovery   *)
(* order, with and without the dummy actions: the union's vocabulary is the *)
(* union of the parts' vocabularies and the same for every order.           *)
(* Negative control: a combiner that skips a file all of whose actions are  *)
(* already known (and with it the file's other declarations).               *)
EXTENDS Combine

CONSTANT Three      \* also explore three-part covers

TypeDecls == <<<<"ta", "object">>, <<"tb", "ta">>>>
PredDecls == <<[name |-> "p", params |-> <<<<"?a", "ta">>>>], [name |-> "q", params |-> <<<<"?a", "tb">>>>]>>
FuncDecls == <<[name |-> "f", params |-> <<>>]>>
ConstDecls == <<<<"k", "ta">>>>
Acts == <<[name |-> "a1", params |-> <<<<"?x", "ta">>>>, pre |-> TrueF, preHead |-> "empty", effHead |-> "and", eff |-> <<[k |-> "add", p |-> "p", a |-> <<"?x">>]>>],
          [name |-> "a2", params |-> <<<<"?x", "tb">>>>, pre |-> TrueF, preHead |-> "empty", effHead |-> "and", eff |-> <<[k |-> "add", p |-> "q", a |-> <<"?x">>]>>]>>

SubOf(seq, S) == SelectSeq(seq, LAMBDA x : x \in S)
PartOf(c) == [ok |-> TRUE, name |-> "dom", reqs |-> {":typing"}, typeDecl |-> TypeDecls,
              consts |-> SubOf(ConstDecls, c.k), preds |-> SubOf(PredDecls, c.p), funcs |-> SubOf(FuncDecls, c.f), actions |-> SubOf(Acts, c.a)]
PartChoices == [k : SUBSET Range(ConstDecls), p : SUBSET Range(PredDecls), f : SUBSET Range(FuncDecls), a : SUBSET Range(Acts)]

VARIABLES parts, dummy
Init == /\ parts \in UNION {[1..n -> PartChoices] : n \in 1..2} \cup (IF ~Three THEN {} ELSE {<<c1, c2, c3>> : c1 \in {c \in PartChoices : c.a = Range(Acts)}, c2 \in {c \in PartChoices : c.a = {}}, c3 \in {c \in PartChoices : c.k = {} /\ c.f = {}}})
        /\ dummy \in BOOLEAN
Next == UNCHANGED <<parts, dummy>>
Spec == Init /\ [][Next]_<<parts, dummy>>

Doms == [i \in DOMAIN parts |-> PartOf(parts[i])]
OrderOf(p) == [i \in DOMAIN parts |-> Doms[p[i]]]
V(d) == [VocabOf(d) EXCEPT !.name = "x"]
OrderIndependent == \A p, q \in Permutations(DOMAIN parts) : V(UnionDomain(OrderOf(p), dummy)) = V(UnionDomain(OrderOf(q), dummy))
IsUnion == LET u == V(UnionDomain(Doms, FALSE)) IN
  /\ u.preds = UNION {V(Doms[i]).preds : i \in DOMAIN Doms}
  /\ u.consts = UNION {V(Doms[i]).consts : i \in DOMAIN Doms}
  /\ u.funcs = UNION {V(Doms[i]).funcs : i \in DOMAIN Doms}
  /\ u.actions = UNION {V(Doms[i]).actions : i \in DOMAIN Doms}
\* negative control
RECURSIVE SkipKnown(_, _)
SkipKnown(ds, acc) ==
  IF ds = <<>> THEN acc
  ELSE LET d == ds[1]  known == UNION {{acc[i].actions[j].name : j \in DOMAIN acc[i].actions} : i \in DOMAIN acc} IN
       IF acc # <<>> /\ d.actions # <<>> /\ \A j \in DOMAIN d.actions : d.actions[j].name \in known THEN SkipKnown(Tail(ds), acc)
       ELSE SkipKnown(Tail(ds), Append(acc, d))
BadSkipKnown == V(UnionDomain(SkipKnown(Doms, <<>>), FALSE)) = V(UnionDomain(Doms, FALSE))
=============================================================================
