------------------------------- MODULE Gen_Plan --------------------------------
(* Emits the micro-domain of PlanFamily, its initial states as problems and *)
(* every plan up to MaxLen, for replay through TrajectoryExporter.          *)
EXTENDS PlanFamily, Json, IOUtils

InitSeq == SetToSeq(Inits)
ProbTree(i) ==
  TreeOfProblem([name |-> "pp", domain |-> D.name, objs |-> <<<<"a", "t1">>, <<"b", "t1">>>>,
                 facts |-> SetToSeq(InitSeq[i].facts),
                 fls |-> <<<<"g", <<>>, InitSeq[i].fl[<<"g", <<>>>>]>>>>, glits |-> <<>>, gcmps |-> <<>>], "each")
Plans == UNION {[1..n -> Calls] : n \in 1..MaxLen}
PlanSeq == SetToSeq(Plans)
ASSUME ndJsonSerialize(IOEnv.GEN_FILE,
  <<[kind |-> "header", dom |-> DomTree, probs |-> [i \in DOMAIN InitSeq |-> ProbTree(i)]]>>
  \o [i \in DOMAIN PlanSeq |-> [kind |-> "plan", id |-> i, plan |-> [j \in DOMAIN PlanSeq[i] |-> <<PlanSeq[i][j].act, PlanSeq[i][j].args>>]]])
ASSUME PrintT(<<"GENERATED", Len(PlanSeq)>>)
VARIABLE dummy
GInit == dummy = 0
GNext == UNCHANGED dummy
=============================================================================
