------------------------------ MODULE PlanFamily -------------------------------
(* The micro-domain, universe, initial states and calls of MC_Plan, shared  *)
(* with the generator Gen_Plan.                                             *)
EXTENDS Plan

CONSTANT MaxLen

Objs == {"a", "b"}
U == [parent |-> [t1 |-> "object"], objs |-> [a |-> "t1", b |-> "t1"]]
EpsM == <<1, 10000>>

At(p, a) == [k |-> "atom", p |-> p, a |-> a]
D == [ok |-> TRUE, name |-> "mp", reqs |-> {":typing"}, typeDecl |-> <<<<"t1", "object">>>>, consts |-> <<>>,
      preds |-> <<[name |-> "p", params |-> <<<<"?a", "t1">>>>], [name |-> "q", params |-> <<<<"?a", "t1">>>>]>>,
      funcs |-> <<[name |-> "g", params |-> <<>>]>>,
      actions |-> <<
        [name |-> "inc", params |-> <<<<"?x", "t1">>>>, preHead |-> "and", effHead |-> "and",
         pre |-> [k |-> "and", fs |-> <<At("p", <<"?x">>)>>],
         eff |-> <<[k |-> "del", p |-> "p", a |-> <<"?x">>], [k |-> "add", p |-> "q", a |-> <<"?x">>],
                   [k |-> "upd", op |-> "increase", f |-> "g", a |-> <<>>, e |-> [k |-> "num", v |-> <<1, 1>>]]>>],
        [name |-> "mv", params |-> <<<<"?x", "t1">>, <<"?y", "t1">>>>, preHead |-> "and", effHead |-> "and",
         pre |-> [k |-> "and", fs |-> <<At("q", <<"?x">>), [k |-> "not", f |-> [k |-> "eq", l |-> "?x", r |-> "?y"]]>>],
         eff |-> <<[k |-> "del", p |-> "q", a |-> <<"?x">>], [k |-> "add", p |-> "p", a |-> <<"?y">>],
                   [k |-> "when", c |-> At("p", <<"?x">>),
                    es |-> <<[k |-> "upd", op |-> "decrease", f |-> "g", a |-> <<>>, e |-> [k |-> "num", v |-> <<1, 2>>]]>>]>>]>>]

DomTree == TreeOfDomain([name |-> D.name, reqs |-> <<":typing">>, typeDecl |-> D.typeDecl, consts |-> <<>>,
                         preds |-> D.preds, funcs |-> D.funcs, actions |-> D.actions], "each", FALSE)

Calls == {[act |-> "inc", args |-> <<o>>] : o \in Objs} \cup {[act |-> "mv", args |-> <<o1, o2>>] : o1, o2 \in Objs}
Inits == {[facts |-> {<<"p", <<"a">>>>}, fl |-> (<<"g", <<>>>> :> <<0, 1>>)],
          [facts |-> {<<"p", <<"a">>>>, <<"q", <<"b">>>>, <<"p", <<"b">>>>}, fl |-> (<<"g", <<>>>> :> <<3, 2>>)]}

=============================================================================
