------------------------------ MODULE Gen_Types -------------------------------
(* Emits the renderings of MC_Types' family (every Stride-th one) as token  *)
(* sequences for the :types section, each with the forest it was rendered   *)
(* from; the harness wraps it into a domain and drives the library.         *)
EXTENDS Types, Json, IOUtils

CONSTANTS Names, Stride

OrdersOf(par) == {o \in [1..Cardinality(GroupsOf(par)) -> GroupsOf(par)] : Range(o) = GroupsOf(par)}
Renderings ==
  UNION { {[par |-> par, order |-> order, split |-> split, trail |-> trail, omit |-> omit] :
              order \in OrdersOf(par), split \in BOOLEAN, trail \in BOOLEAN, omit \in BOOLEAN}
          : par \in Forests(Names) }

Parents(r) == {r.par[c] : c \in DOMAIN r.par}
Pruned(r) == IF ~r.omit THEN r.order
             ELSE SelectSeq([i \in DOMAIN r.order |->
                               IF r.order[i].p = "object" THEN [p |-> "object", cs |-> r.order[i].cs \ Parents(r)] ELSE r.order[i]],
                            LAMBDA g : g.cs # {})
Written(r) == IF r.split THEN Singles(Pruned(r)) ELSE Pruned(r)

AllSeq == SetToSeq(Renderings)
Picked == SelectSeq([i \in DOMAIN AllSeq |-> [i |-> i, r |-> AllSeq[i]]], LAMBDA x : x.i % Stride = 0)

Case(x) == [id |-> x.i, tokens |-> Render(Written(x.r), x.r.trail),
            forest |-> [n \in DOMAIN x.r.par |-> x.r.par[n]]]

ASSUME ndJsonSerialize(IOEnv.GEN_FILE, [j \in DOMAIN Picked |-> Case(Picked[j])])
ASSUME PrintT(<<"GENERATED", Len(Picked)>>)

VARIABLE dummy
GInit == dummy = 0
GNext == UNCHANGED dummy
=============================================================================
