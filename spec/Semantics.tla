----------------------------- MODULE Semantics -------------------------------
(***************************************************************************)
(* Deep embedding of PDDL 2.1 level-2 semantics (the fragment the library  *)
(* claims): terms, typed universes, formulas, numeric expressions, effects, *)
(* applicability and the successor function.                               *)
(*                                                                         *)
(* Data (all of it plain TLA+ values, so that it can arrive as JSON):      *)
(*   Term     a string: "?x" (parameter / quantified variable) or a name   *)
(*   Env      function  variable -> object name                            *)
(*   dv       set of names of known deviations (see known_findings.json);  *)
(*            {} is the specification proper                               *)
(*   U        universe  [parent : type -> type, objs : object -> type]     *)
(*   Formula  [k:"atom",p,a] [k:"not",f] [k:"eq",l,r] [k:"and",fs]         *)
(*            [k:"or",fs] [k:"forall",v,t,f] [k:"cmp",op,l,r]              *)
(*            [k:"imply",l,r] [k:"exists",v,t,f]   (outside the library's  *)
(*                                                  fragment; C01 lenient) *)
(*   Expr     [k:"num",v] [k:"fl",f,a] [k:"bin",op,l,r]                    *)
(*   Effect   [k:"add"|"del",p,a] [k:"upd",op,f,a,e]                       *)
(*            [k:"when",c,es] [k:"forall",v,t,c,es]                        *)
(*   State    [facts : SUBSET (name \X Seq(object)),                       *)
(*             fl    : (name \X Seq(object)) -> Rat]      (partial map)    *)
(*                                                                         *)
(* Truth is three valued: "T", "F" and "U".  "U" marks the regions the     *)
(* properties leave open (a comparison exactly one tolerance apart, a read *)
(* of a fluent the state does not define, a division by zero); the binding *)
(* accepts any observed outcome there.  Kleene connectives propagate it.   *)
(***************************************************************************)
EXTENDS Rat, FiniteSets, TLC, Functions

----------------------------------------------------------------------------
(* Types *)

\* a <= b in the reflexive-transitive closure of parent, "object" on top.
RECURSIVE SubTypeN(_, _, _, _)
SubTypeN(parent, a, b, fuel) ==
  IF a = b THEN TRUE
  ELSE IF b = "object" THEN TRUE
  ELSE IF a = "object" \/ a \notin DOMAIN parent \/ fuel = 0 THEN FALSE
  ELSE SubTypeN(parent, parent[a], b, fuel - 1)

SubType(parent, a, b) == SubTypeN(parent, a, b, Cardinality(DOMAIN parent) + 1)

ObjsOf(u, t) == {o \in DOMAIN u.objs : SubType(u.parent, u.objs[o], t)}

----------------------------------------------------------------------------
(* Terms *)

Tm(t, env)   == IF t \in DOMAIN env THEN env[t] ELSE t
Args(a, env) == [i \in DOMAIN a |-> Tm(a[i], env)]
Bind(env, v, o) == [x \in DOMAIN env \cup {v} |-> IF x = v THEN o ELSE env[x]]

----------------------------------------------------------------------------
(* Numeric expressions.  The result is [ok, v]; ok = FALSE marks a read of *)
(* an undefined fluent or a division by zero.                              *)

Bad == [ok |-> FALSE, v |-> RZero]
Good(v) == [ok |-> TRUE, v |-> v]

RECURSIVE Eval(_, _, _)
Eval(e, env, st) ==
  CASE e.k = "num" -> Good(e.v)
    [] e.k = "fl"  -> LET g == <<e.f, Args(e.a, env)>>
                      IN  IF g \in DOMAIN st.fl /\ st.fl[g][2] # 0 THEN Good(st.fl[g]) ELSE Bad
    [] e.k = "bin" -> LET x == Eval(e.l, env, st)
                          y == Eval(e.r, env, st)
                      IN  IF ~x.ok \/ ~y.ok THEN Bad
                          ELSE IF TooBig(x.v) \/ TooBig(y.v) THEN Bad
                          ELSE IF e.op = "/" /\ RIsZero(y.v) THEN Bad
                          ELSE LET r == RBin(e.op, x.v, y.v)
                               IN  IF TooBig(r) THEN Bad ELSE Good(r)   \* a result the harness could not render exactly
    \* n-ary and unary arithmetic (outside the library's fragment; this is its
    \* standard meaning): (+ a b c) = a+b+c, (- a) = -a, (- a b c) = a-b-c
    [] e.k = "nary" -> IF Len(e.es) = 0 THEN Bad
                       ELSE IF Len(e.es) = 1 THEN
                              LET x == Eval(e.es[1], env, st) IN
                              IF ~x.ok \/ TooBig(x.v) THEN Bad
                              ELSE IF e.op = "-" THEN Good(RNeg(x.v))
                              ELSE IF e.op = "/" THEN (IF RIsZero(x.v) THEN Bad ELSE Good(RDiv(ROne, x.v)))
                              ELSE x
                       ELSE Eval([k |-> "bin", op |-> e.op,
                                  l |-> (IF Len(e.es) = 2 THEN e.es[1]
                                         ELSE [k |-> "nary", op |-> e.op, es |-> SubSeq(e.es, 1, Len(e.es) - 1)]),
                                  r |-> e.es[Len(e.es)]], env, st)
    [] OTHER -> Bad

----------------------------------------------------------------------------
(* Three-valued connectives *)

Not3(x) == CASE x = "T" -> "F" [] x = "F" -> "T" [] OTHER -> "U"
AndSet(S) == IF "F" \in S THEN "F" ELSE IF "U" \in S THEN "U" ELSE "T"
OrSet(S)  == IF "T" \in S THEN "T" ELSE IF "U" \in S THEN "U" ELSE "F"
B3(b) == IF b THEN "T" ELSE "F"

Cmp3(op, x, y, eps) ==
  IF ~x.ok \/ ~y.ok \/ ~CmpSafe(x.v, y.v) THEN "U"
  ELSE LET S == CmpTolSet(op, x.v, y.v, eps)
       IN  IF S = BOOLEAN THEN "U" ELSE B3(TRUE \in S)

\* Known deviation "ForallPreDropped": a universally quantified *condition* is
\* never grounded by the library, i.e. it is dropped from the connective it is
\* a member of (so it counts as the neutral element of that connective).
Members(f, dv) ==
  IF "ForallPreDropped" \in dv THEN {i \in DOMAIN f.fs : f.fs[i].k # "forall"} ELSE DOMAIN f.fs

RECURSIVE Holds3(_, _, _, _, _, _)
Holds3(f, env, st, u, eps, dv) ==
  CASE f.k = "atom"   -> B3(<<f.p, Args(f.a, env)>> \in st.facts)
    [] f.k = "not"    -> Not3(Holds3(f.f, env, st, u, eps, dv))
    [] f.k = "eq"     -> B3(Tm(f.l, env) = Tm(f.r, env))
    [] f.k = "and"    -> AndSet({Holds3(f.fs[i], env, st, u, eps, dv) : i \in Members(f, dv)})
    [] f.k = "or"     -> OrSet({Holds3(f.fs[i], env, st, u, eps, dv) : i \in Members(f, dv)})
    [] f.k = "imply"  -> OrSet({Not3(Holds3(f.l, env, st, u, eps, dv)), Holds3(f.r, env, st, u, eps, dv)})
    [] f.k = "forall" -> IF "ForallPreDropped" \in dv THEN "T"
                         ELSE AndSet({Holds3(f.f, Bind(env, f.v, o), st, u, eps, dv) : o \in ObjsOf(u, f.t)})
    [] f.k = "exists" -> OrSet({Holds3(f.f, Bind(env, f.v, o), st, u, eps, dv) : o \in ObjsOf(u, f.t)})
    [] f.k = "cmp"    -> Cmp3(f.op, Eval(f.l, env, st), Eval(f.r, env, st), eps)
    [] OTHER          -> "U"

TrueF == [k |-> "and", fs |-> <<>>]

----------------------------------------------------------------------------
(* Effects.  A *group* is <<condition, simple effects, binding>>: the      *)
(* unconditional effects form one group with condition TrueF, each `when'  *)
(* is a group, each forall-when contributes one group per object of the    *)
(* quantified type (subtypes included).                                    *)

IsSimple(e) == e.k \in {"add", "del", "upd"}

\* a conjunction nested inside the effect list means its members
RECURSIVE FlattenEffs(_)
FlattenEffs(effs) ==
  IF effs = <<>> THEN <<>>
  ELSE IF effs[1].k = "nestedand" THEN effs[1].es \o FlattenEffs(Tail(effs))
  ELSE <<effs[1]>> \o FlattenEffs(Tail(effs))

KnownEffect(e) ==
  \/ e.k \in {"add", "del"}
  \/ e.k = "upd" /\ e.op \in {"assign", "increase", "decrease", "scale-up", "scale-down"}
  \/ e.k \in {"when", "forall"} /\ \A i \in DOMAIN e.es : e.es[i].k \in {"add", "del"} \/
        (e.es[i].k = "upd" /\ e.es[i].op \in {"assign", "increase", "decrease", "scale-up", "scale-down"})

UncondSeq(effs) == SelectSeq(effs, IsSimple)

Groups(effs, env, u) ==
  {<<TrueF, UncondSeq(effs), env>>}
  \cup {<<effs[i].c, effs[i].es, env>> : i \in {j \in DOMAIN effs : effs[j].k = "when"}}
  \cup UNION { {<<effs[i].c, effs[i].es, Bind(env, effs[i].v, o)>> : o \in ObjsOf(u, effs[i].t)}
               : i \in {j \in DOMAIN effs : effs[j].k = "forall"} }

GroupTruth(g, st, u, eps, dv) == Holds3(g[1], g[3], st, u, eps, dv)

\* simple effects of a set of groups, each paired with its binding
SimpleOf(G) == UNION { {<<g[2][i], g[3]>> : i \in DOMAIN g[2]} : g \in G }

AddsOf(S) == {<<x[1].p, Args(x[1].a, x[2])>> : x \in {y \in S : y[1].k = "add"}}
DelsOf(S) == {<<x[1].p, Args(x[1].a, x[2])>> : x \in {y \in S : y[1].k = "del"}}
UpdsOf(S) == {x \in S : x[1].k = "upd"}
Target(x) == <<x[1].f, Args(x[1].a, x[2])>>

\* value written by update x when its right-hand side is read in state rd
\* and the old value of the target in state old
NewVal(x, rd, old) ==
  LET rhs == Eval(x[1].e, x[2], rd)
      t   == Target(x)
  IN  IF ~rhs.ok THEN Bad
      ELSE IF x[1].op = "assign" THEN rhs
      ELSE IF t \notin DOMAIN old.fl THEN Bad
      ELSE IF TooBig(old.fl[t]) \/ TooBig(rhs.v) THEN Bad
      ELSE LET r == IF x[1].op = "increase" THEN RAdd(old.fl[t], rhs.v)
                    ELSE IF x[1].op = "decrease" THEN RSub(old.fl[t], rhs.v)
                    ELSE IF x[1].op = "scale-up" THEN RMul(old.fl[t], rhs.v)
                    ELSE IF x[1].op = "scale-down" /\ ~RIsZero(rhs.v) THEN RDiv(old.fl[t], rhs.v)
                    ELSE <<0, 0>>
           IN  IF TooBig(r) THEN Bad ELSE Good(r)

(* Consistency of the simultaneously firing effects (the quantifier of C03):
   no fluent written twice, no atom added by one group and deleted by
   another. *)
Consistent(F) ==
  /\ \A g1, g2 \in F : g1 # g2 =>
        /\ AddsOf(SimpleOf({g1})) \cap DelsOf(SimpleOf({g2})) = {}
        /\ {Target(x) : x \in UpdsOf(SimpleOf({g1}))} \cap {Target(x) : x \in UpdsOf(SimpleOf({g2}))} = {}
  /\ \A g \in F : \A i, j \in DOMAIN g[2] :
        (i # j /\ g[2][i].k = "upd" /\ g[2][j].k = "upd")
          => Target(<<g[2][i], g[3]>>) # Target(<<g[2][j], g[3]>>)

\* two textually identical when / forall effects collapse in the set of groups.
\* That is harmless when they only add / delete atoms (idempotent); with a numeric
\* update it would hide a fluent written twice, so such inputs are outside the
\* consistent fragment
NoDupGroups(effs) ==
  \A i, j \in DOMAIN effs :
     (i # j /\ ~IsSimple(effs[i]) /\ \E k \in DOMAIN effs[i].es : effs[i].es[k].k = "upd") => effs[i] # effs[j]

(* The declarative successor.  Result [ok, st]; ok = FALSE marks a
   don't-care (undetermined condition, undefined read, inconsistent effects). *)
NoSucc == [ok |-> FALSE, st |-> [facts |-> {}, fl |-> <<>>]]

Succ(effs0, env, st, u, eps, dv) ==
  LET effs == FlattenEffs(effs0)
      G  == IF \A i \in DOMAIN effs : KnownEffect(effs[i]) THEN Groups(effs, env, u) ELSE {}
      tv == [g \in G |-> GroupTruth(g, st, u, eps, dv)]
      F  == {g \in G : tv[g] = "T"}
      S  == SimpleOf(F)
      Up == UpdsOf(S)
      nv == [x \in Up |-> NewVal(x, st, st)]
  IN  IF G = {} THEN NoSucc       \* an effect of a kind the semantics does not cover
      ELSE IF \E g \in G : tv[g] = "U" THEN NoSucc
      ELSE IF ~NoDupGroups(effs) \/ ~Consistent(F) THEN NoSucc
      ELSE IF \E x \in Up : ~nv[x].ok THEN NoSucc
      ELSE [ok |-> TRUE,
            st |-> [facts |-> (st.facts \ DelsOf(S)) \cup AddsOf(S),
                    fl    |-> [t \in DOMAIN st.fl \cup {Target(x) : x \in Up} |->
                                 IF \E x \in Up : Target(x) = t
                                 THEN nv[CHOOSE x \in Up : Target(x) = t].v
                                 ELSE st.fl[t]]]]

----------------------------------------------------------------------------
(* Small-step models of the algorithmic freedom the implementation has.    *)
(* They are checked (MC_Semantics) to refine the declarative definitions   *)
(* for every schedule; the variants with a flag set are the negative       *)
(* controls (plausible / as-found implementation mistakes).                *)

\* Fold of a connective over an operand *sequence* (a permutation of the
\* operand set) with an accumulator.  initIdentity = FALSE models an
\* accumulator that always starts from "T" (the as-found `or' fold).
RECURSIVE FoldTruth(_, _, _)
FoldTruth(op, acc, vals) ==
  IF vals = <<>> THEN acc
  ELSE FoldTruth(op, IF op = "and" THEN AndSet({acc, Head(vals)}) ELSE OrSet({acc, Head(vals)}), Tail(vals))

FoldEval(op, vals, initIdentity) ==
  FoldTruth(op, IF initIdentity THEN (IF op = "and" THEN "T" ELSE "F") ELSE "T", vals)

\* One group applied to the state being built: delete, then add, then the
\* numeric updates (all right-hand sides of the group evaluated first).
\* readNew = TRUE reads right-hand sides and old target values from the
\* state being built instead of the pre-state (negative control).
ApplyGroup(g, cur, pre, readNew) ==
  LET S  == SimpleOf({g})
      Up == UpdsOf(S)
      rd == IF readNew THEN cur ELSE pre
      nv == [x \in Up |-> NewVal(x, rd, rd)]
  IN  [facts |-> (cur.facts \ DelsOf(S)) \cup AddsOf(S),
       fl    |-> [t \in DOMAIN cur.fl \cup {Target(x) : x \in Up} |->
                    IF \E x \in Up : Target(x) = t
                    THEN nv[CHOOSE x \in Up : Target(x) = t].v
                    ELSE cur.fl[t]]]

RECURSIVE ApplySeq(_, _, _, _)
ApplySeq(gs, cur, pre, readNew) ==
  IF gs = <<>> THEN cur
  ELSE ApplySeq(Tail(gs), ApplyGroup(Head(gs), cur, pre, readNew), pre, readNew)

\* universe in which forall ranges over objects of exactly the named type
\* (negative control for C02/C03/C06)
ObjsOfExact(u, t) == {o \in DOMAIN u.objs : u.objs[o] = t}

=============================================================================
