------------------------------ MODULE MC_Numeric -------------------------------
(***************************************************************************)
(* Numeric expressions and tolerance comparisons (C12).                    *)
(*  - every expression tree up to depth 2 over + - * / with two fluents    *)
(*    and three constants, under every valuation of a 4-value grid: a      *)
(*    post-order stack machine (the shape of an iterative evaluator)       *)
(*    computes Semantics!Eval; operand order laws for - and / under        *)
(*    nesting;                                                             *)
(*  - pairs of values k half-tolerances apart (k in -4..4) at several      *)
(*    magnitudes: the laws that tie = <= >= < > together.                  *)
(* Negative controls: swapped operands of - and /, <= without tolerance.   *)
(***************************************************************************)
EXTENDS Semantics, SequencesExt

EpsM == <<1, 100>>
Num(n, d)  == [k |-> "num", v |-> <<n, d>>]
Fl(f)      == [k |-> "fl", f |-> f, a |-> <<>>]
Bin(op, l, r) == [k |-> "bin", op |-> op, l |-> l, r |-> r]
Ops == {"+", "-", "*", "/"}
E0 == {Fl("f"), Fl("g"), Num(1, 2), Num(2, 1), Num(-1, 1)}
E1 == E0 \cup {Bin(op, l, r) : op \in Ops, l \in E0, r \in E0}
E2 == {Bin(op, l, r) : op \in Ops, l \in {Fl("f"), Num(2, 1)} \cup {Bin(o2, a, b) : o2 \in {"-", "/"}, a \in {Fl("f"), Fl("g")}, b \in {Fl("g"), Num(1, 2)}},
                                   r \in {Fl("g"), Num(-1, 1)} \cup {Bin(o2, a, b) : o2 \in {"-", "/"}, a \in {Fl("g"), Num(2, 1)}, b \in {Fl("f"), Num(1, 2)}}}
Exprs == E1 \cup E2
Grid == {<<0, 1>>, <<1, 1>>, <<3, 2>>, <<-2, 1>>}
Magn == {0, 1, 100, 10000, 1000000}

VARIABLES e, vf, vg, m, k, op
vars == <<e, vf, vg, m, k, op>>
Init == /\ e \in Exprs /\ vf \in Grid /\ vg \in Grid
        /\ m = 0 /\ k = 0 /\ op = "="
Next == \* second family: comparison probes (expression part fixed)
        /\ e' = Fl("f") /\ vf' = <<0, 1>> /\ vg' = <<0, 1>>
        /\ e = Fl("f") /\ vf = <<0, 1>> /\ vg = <<0, 1>> /\ m = 0 /\ k = 0 /\ op = "="
        /\ m' \in Magn /\ k' \in -4..4 /\ op' \in {"=", "<=", ">=", "<", ">"}
Spec == Init /\ [][Next]_vars

St == [facts |-> {}, fl |-> (<<"f", <<>>>> :> vf) @@ (<<"g", <<>>>> :> vg)]
Ev(x) == Eval(x, <<>>, St)

\* post-order stack machine
RECURSIVE Code(_)
Code(x) == IF x.k = "bin" THEN Code(x.l) \o Code(x.r) \o <<[i |-> "op", op |-> x.op]>> ELSE <<[i |-> "push", x |-> x]>>
RECURSIVE RunCode(_, _)
RunCode(code, stack) ==
  IF code = <<>> THEN stack
  ELSE LET c == code[1] IN
       IF c.i = "push" THEN RunCode(Tail(code), Append(stack, Ev(c.x)))
       ELSE LET y == stack[Len(stack)]  x == stack[Len(stack) - 1]
                r == IF ~x.ok \/ ~y.ok THEN Bad
                     ELSE IF TooBig(x.v) \/ TooBig(y.v) THEN Bad
                     ELSE IF c.op = "/" /\ RIsZero(y.v) THEN Bad
                     ELSE IF TooBig(RBin(c.op, x.v, y.v)) THEN Bad ELSE Good(RBin(c.op, x.v, y.v))
            IN  RunCode(Tail(code), Append(SubSeq(stack, 1, Len(stack) - 2), r))
StackRefines == LET r == RunCode(Code(e), <<>>) IN Len(r) = 1 /\ r[1] = Ev(e)

Swap(x) == IF x.k = "bin" THEN [x EXCEPT !.l = x.r, !.r = x.l] ELSE x
OperandOrder ==
  (e.k = "bin" /\ Ev(e).ok /\ Ev(Swap(e)).ok) =>
     /\ (e.op = "-" => Ev(Swap(e)).v = RNeg(Ev(e).v))
     /\ (e.op \in {"+", "*"} => Ev(Swap(e)).v = Ev(e).v)
     /\ (e.op = "/" /\ ~RIsZero(Ev(e).v) => RMul(Ev(e).v, Ev(Swap(e)).v) = ROne)
\* (- a (- b c)) = (+ (- a b) c)
NestedMinus ==
  (e.k = "bin" /\ e.op = "-" /\ e.r.k = "bin" /\ e.r.op = "-") =>
     LET alt == Bin("+", Bin("-", e.l, e.r.l), e.r.r) IN Ev(e).ok /\ Ev(alt).ok => Ev(e).v = Ev(alt).v
\* negative control: - and / with swapped operands
BadSwapped == (e.k = "bin" /\ e.op \in {"-", "/"} /\ Ev(e).ok /\ Ev(Swap(e)).ok) => Ev(Swap(e)).v = Ev(e).v

\* comparison probes: x = m, y = m + k half-tolerances
X == <<m * 200, 200>>
Y == <<m * 200 + k, 200>>
C(o, a, b) == CmpTolSet(o, a, b, EpsM)
Det(o, a, b) == C(o, a, b) # BOOLEAN
T(o, a, b) == TRUE \in C(o, a, b)
CmpLaws ==
  /\ (Abs(k) < 2 => T("=", X, Y) /\ T("<=", X, Y) /\ T(">=", X, Y))
  /\ (Abs(k) > 2 => ~T("=", X, Y) /\ (T("<=", X, Y) = (k > 0)) /\ (T(">=", X, Y) = (k < 0)))
  /\ (Abs(k) = 2 => ~Det("=", X, Y))                     \* exactly one tolerance apart: open
  /\ (T("<", X, Y) = (k > 0)) /\ (T(">", X, Y) = (k < 0)) /\ Det("<", X, Y) /\ Det(">", X, Y)
  /\ (Det("<=", X, Y) /\ Det("=", X, Y) => (T("<=", X, Y) = (T("<", X, Y) \/ T("=", X, Y))))
  /\ C(">=", X, Y) = C("<=", Y, X) /\ C("=", X, Y) = C("=", Y, X)
\* negative control: <= without tolerance
BadLeNoTol == T("<=", X, Y) = (k >= 0)
=============================================================================
