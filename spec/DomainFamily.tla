----------------------------- MODULE DomainFamily ------------------------------
(***************************************************************************)
(* Domain texts for C01 over CoreFamily's vocabulary:                      *)
(*  - the *supported* family: CoreFamily's formulas / effect lists inside  *)
(*    a domain, rendered with typed, grouped or untyped parameter lists and *)
(*    bare or conjunctive when-bodies;                                     *)
(*  - the *lenient* family: one action per construct outside the library's *)
(*    fragment, in each position it can occur.  For these the only         *)
(*    acceptable outcomes are "faithful" (Semantics gives every one of     *)
(*    them its standard meaning) or "exception".                           *)
(***************************************************************************)
EXTENDS CoreFamily

Imp(l, r) == [k |-> "imply", l |-> l, r |-> r]
Ex(v, t, f) == [k |-> "exists", v |-> v, t |-> t, f |-> f]
All(v, t, f) == [k |-> "forall", v |-> v, t |-> t, f |-> f]
AndF(fs) == [k |-> "and", fs |-> fs]
OrF(fs) == [k |-> "or", fs |-> fs]
Nary(op, es) == [k |-> "nary", op |-> op, es |-> es]

Px == Atom("p", <<"?x">>)
Py == Atom("p", <<"?y">>)
Qxy == Atom("q", <<"?x", "?y">>)
AddPx == [k |-> "add", p |-> "p", a |-> <<"?x">>]

\* precondition trees written directly (forms the formula renderer cannot
\* distinguish: a body that is a single literal / not / or instead of (and ..))
LenientPre ==
  << [n |-> "single-literal",   t |-> TreeOfFormula(Px)],
     [n |-> "single-zero-arity", t |-> Li(<<Sy("="), Li(<<Sy("g")>>), Nu(<<0, 1>>)>>)],
     [n |-> "top-level-not",    t |-> TreeOfFormula(NotF(Px))],
     [n |-> "top-level-or",     t |-> TreeOfFormula(OrF(<<Px, Qxy>>))],
     [n |-> "top-level-forall", t |-> TreeOfFormula(All("?z", "t1", AndF(<<Atom("p", <<"?z">>)>>)))],
     [n |-> "imply",            t |-> TreeOfFormula(AndF(<<Imp(Px, Py), Qxy>>))],
     [n |-> "imply-first",      t |-> TreeOfFormula(AndF(<<Qxy, Imp(Px, Py)>>))],
     [n |-> "exists",           t |-> TreeOfFormula(AndF(<<Ex("?z", "t1", Atom("q", <<"?x", "?z">>)), Py>>))],
     [n |-> "undeclared-pos",   t |-> TreeOfFormula(AndF(<<Atom("zz", <<"?x">>), Py>>))],
     [n |-> "undeclared-neg",   t |-> TreeOfFormula(AndF(<<NotF(Atom("zz", <<"?x">>)), Py>>))],
     [n |-> "repeated-arg",     t |-> TreeOfFormula(AndF(<<Atom("q", <<"?y", "?y">>)>>))],
     [n |-> "repeated-arg-neg", t |-> TreeOfFormula(AndF(<<NotF(Atom("q", <<"?x", "?x">>)), Py>>))],
     [n |-> "nary-plus",        t |-> TreeOfFormula(AndF(<<CmpF(">=", Nary("+", <<Fl("f", <<"?x">>), Fl("g", <<>>), Num(1, 1)>>), Num(2, 1))>>))],
     [n |-> "unary-minus",      t |-> TreeOfFormula(AndF(<<CmpF("<", Nary("-", <<Fl("g", <<>>)>>), Fl("f", <<"?x">>))>>))],
     [n |-> "forall-literal-body", t |-> TreeOfFormula(AndF(<<All("?z", "t1", Atom("p", <<"?z">>))>>))],
     [n |-> "not-compound",     t |-> TreeOfFormula(AndF(<<NotF(AndF(<<Px, Py>>))>>))],
     [n |-> "not-comparison",   t |-> TreeOfFormula(AndF(<<NotF(CmpF("<", Fl("g", <<>>), Num(1, 1)))>>))],
     [n |-> "nested-forall",    t |-> TreeOfFormula(AndF(<<All("?z", "t1", AndF(<<All("?w", "t1", AndF(<<Atom("q", <<"?z", "?w">>)>>))>>))>>))] >>

ScaleUp == [k |-> "upd", op |-> "scale-up", f |-> "g", a |-> <<>>, e |-> Num(2, 1)]
LenientEff ==
  << [n |-> "non-and-body",   t |-> TreeOfSimpleEff(AddPx)],
     [n |-> "scale-up",       t |-> Li(<<Sy("and"), TreeOfSimpleEff(ScaleUp), TreeOfSimpleEff(AddPx)>>)],
     [n |-> "scale-down",     t |-> Li(<<Sy("and"), TreeOfSimpleEff([ScaleUp EXCEPT !.op = "scale-down"])>>)],
     [n |-> "undeclared-add", t |-> Li(<<Sy("and"), TreeOfSimpleEff([k |-> "add", p |-> "zz", a |-> <<"?x">>]), TreeOfSimpleEff(AddPx)>>)],
     [n |-> "undeclared-del", t |-> Li(<<Sy("and"), TreeOfSimpleEff([k |-> "del", p |-> "zz", a |-> <<"?x">>]), TreeOfSimpleEff(AddPx)>>)],
     [n |-> "undeclared-in-when", t |-> TreeOfEffects(<<[k |-> "when", c |-> Py, es |-> <<[k |-> "add", p |-> "zz", a |-> <<"?x">>]>>]>>, FALSE)],
     [n |-> "repeated-arg-add", t |-> Li(<<Sy("and"), TreeOfSimpleEff([k |-> "add", p |-> "q", a |-> <<"?y", "?y">>])>>)],
     [n |-> "nested-and",     t |-> Li(<<Sy("and"), Li(<<Sy("and"), TreeOfSimpleEff(AddPx), TreeOfSimpleEff([k |-> "del", p |-> "p", a |-> <<"?y">>])>>)>>)],
     [n |-> "bare-forall",    t |-> Li(<<Sy("and"), Li(<<Sy("forall"), Li(<<Sy("?z"), Sy("-"), Sy("t1")>>), TreeOfSimpleEff([k |-> "add", p |-> "p", a |-> <<"?z">>])>>)>>)],
     [n |-> "when-imply",     t |-> TreeOfEffects(<<[k |-> "when", c |-> Imp(Px, Py), es |-> <<AddPx>>]>>, FALSE)],
     [n |-> "when-or-condition", t |-> TreeOfEffects(<<[k |-> "when", c |-> OrF(<<Px, Py>>), es |-> <<[k |-> "add", p |-> "q", a |-> <<"?x", "?y">>]>>]>>, FALSE)],
     [n |-> "nary-in-effect", t |-> Li(<<Sy("and"), TreeOfSimpleEff([k |-> "upd", op |-> "increase", f |-> "g", a |-> <<>>,
                                                              e |-> Nary("*", <<Fl("f", <<"?x">>), Num(2, 1), Fl("g", <<>>)>>)])>>)] >>

DeclsTree(style, body) ==
  Li(<<Sy("define"), Li(<<Sy("domain"), Sy("mc")>>), Li(<<Sy(":requirements"), Sy(":typing")>>),
       Li(<<Sy(":types")>> \o TLTree(<<<<"t1", "object">>, <<"t2", "t1">>>>, "each")),
       Li(<<Sy(":predicates"), Li(<<Sy("p")>> \o TLTree(<<<<"?a", "t1">>>>, style)),
                               Li(<<Sy("q")>> \o TLTree(<<<<"?a", "t1">>, <<"?b", "t1">>>>, style))>>),
       Li(<<Sy(":functions"), Li(<<Sy("f")>> \o TLTree(<<<<"?a", "t1">>>>, "each")), Li(<<Sy("g")>>)>>)>>
     \o body)

ActTree(name, style, preT, effT) ==
  Li(<<Sy(":action"), Sy(name), Sy(":parameters"), Li(TLTree(<<<<"?x", "t1">>, <<"?y", "t1">>>>, style)),
       Sy(":precondition"), preT, Sy(":effect"), effT>>)

DefaultPre == TreeOfFormula(AndF(<<>>))
DefaultEff == Li(<<Sy("and"), TreeOfSimpleEff(AddPx)>>)

LenientCases ==
     [i \in DOMAIN LenientPre |-> [kind |-> "lenient-pre", name |-> LenientPre[i].n, mode |-> "pre",
                                   tree |-> DeclsTree("each", <<ActTree("act", "each", LenientPre[i].t, DefaultEff)>>)]]
  \o [i \in DOMAIN LenientEff |-> [kind |-> "lenient-eff", name |-> LenientEff[i].n, mode |-> "eff",
                                   tree |-> DeclsTree("each", <<ActTree("act", "each", DefaultPre, LenientEff[i].t)>>)]]

\* the supported family in the other renderings: grouped parameters, bare when bodies
SupportedCase(pg, mode, style, single) ==
  [kind |-> "supported", name |-> style, mode |-> mode,
   tree |-> DeclsTree(style, <<ActTree("act", style,
                                       IF mode = "pre" THEN TreeOfFormula(pg) ELSE DefaultPre,
                                       IF mode = "pre" THEN DefaultEff ELSE TreeOfEffects(pg, single))>>)]
=============================================================================
