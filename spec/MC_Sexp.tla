------------------------------- MODULE MC_Sexp --------------------------------
(***************************************************************************)
(* Every text up to MaxLen over a ten-symbol alphabet                      *)
(*      (  )  ;  space  tab  LF  CR LF  a  b  A                            *)
(* is built one character at a time while the small-step Reader consumes   *)
(* the same character, so the state graph is the tree of all texts and the *)
(* invariant compares the one-pass reader with the declarative reading on  *)
(* every text (every prefix included).                                     *)
(***************************************************************************)
EXTENDS Sexp

CONSTANT MaxLen

\* CR LF is one symbol of the alphabet (two characters of the text)
Alphabet == {<<"(">>, <<")">>, <<";">>, <<" ">>, <<"\t">>, <<"\n">>, <<"\r", "\n">>, <<"a">>, <<"b">>, <<"A">>}

VARIABLES text, r, n
vars == <<text, r, n>>

Init == text = <<>> /\ r = RInit /\ n = 0
Next == /\ n < MaxLen
        /\ \E s \in Alphabet :
             /\ text' = text \o s
             /\ r' = RRun(r, s, 1)
        /\ n' = n + 1
Spec == Init /\ [][Next]_vars

ReaderRefines == RFinish(r) = Read(text)

\* laws of the declarative reading (sanity of the specification itself)
CaseInsensitive == Read(text) = Read([i \in DOMAIN text |-> Lower(text[i])])
\* replacing every whitespace run by one space and dropping comments does not
\* change the result: checked through the token sequence
TokensOnly == Read(text) = (LET ts == Tokens(text) r2 == ParseAt(ts, 1)
                            IN IF r2.ok /\ r2.next = Len(ts) + 1 THEN r2.tree ELSE Err)
\* a well-formed text followed (on a new line) by any further token is rejected
NoTrailing == (Read(text) # Err /\ Read(text).t = "l") =>
                 /\ Read(text \o <<"\n", "a">>) = Err
                 /\ Read(text \o <<"\n", ")">>) = Err
                 /\ Read(text \o <<"\n", "(", ")">>) = Err

\* negative controls (as found): tabs deleted instead of separating; the tail
\* after the first complete form ignored
TabDeleted(tx) == SelectSeq(tx, LAMBDA c : c # "\t")
BadTabDeleted == Read(TabDeleted(text)) = Read(text)
ReadPrefix(tx) == LET ts == Tokens(tx) r2 == ParseAt(ts, 1) IN IF r2.ok THEN r2.tree ELSE Err
BadTailIgnored == ReadPrefix(text) = Read(text)
=============================================================================
