------------------------------ MODULE MCTrace --------------------------------
(* Instance of TraceApi with the library's default tolerance (EPSILON = 1e-4). *)
EXTENDS TraceApi
EpsDefault == <<1, 10000>>
EpsCoarse  == <<1, 100>>
EpsFine    == <<1, 1000000>>
EpsQuarter == <<1, 4>>
EpsZero    == <<0, 1>>
=============================================================================
