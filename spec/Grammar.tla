------------------------------ MODULE Grammar --------------------------------
(***************************************************************************)
(* PDDL concrete syntax at the token-tree level, in both directions.       *)
(*                                                                         *)
(* A token tree is a tagged record (TLC cannot compare a string with a     *)
(* tuple, so tokens carry their kind):                                     *)
(*     [t |-> "s", v |-> name]      a symbol, already lower-cased          *)
(*     [t |-> "n", v |-> <<n,d>>]   a number token, already a rational     *)
(*     [t |-> "l", c |-> Seq(tree)] a parenthesised list                   *)
(* The lexical layer (characters -> tokens) is module Sexp; here begins    *)
(* PDDL.  XOfTree reads a tree into the abstract syntax of module          *)
(* Semantics; TreeOfX renders abstract syntax as a tree.  Reading is total: *)
(* shapes that are not PDDL yield [k |-> "bad"] nodes / "#bad" names, which *)
(* WellShaped* detect.                                                     *)
(***************************************************************************)
EXTENDS Semantics, SequencesExt

Sy(v) == [t |-> "s", v |-> v]
Nu(v) == [t |-> "n", v |-> v]
Li(c) == [t |-> "l", c |-> c]

IsSym(x)  == x.t = "s"
IsNum(x)  == x.t = "n"
IsList(x) == x.t = "l"
IsSymV(x, v) == x.t = "s" /\ x.v = v
HeadSym(x) == IF x.t = "l" /\ Len(x.c) > 0 /\ x.c[1].t = "s" THEN x.c[1].v ELSE "#none"
Rest(x) == Tail(x.c)
AllSyms(s) == \A i \in DOMAIN s : s[i].t = "s"
SymVals(s) == [i \in DOMAIN s |-> IF s[i].t = "s" THEN s[i].v ELSE "#bad"]

CmpOps   == {"<", "<=", "=", ">=", ">"}
ArithOps == {"+", "-", "*", "/"}
UpdOps   == {"assign", "increase", "decrease"}
ScaleOps == {"scale-up", "scale-down"}

----------------------------------------------------------------------------
(* Typed lists:  x y - t  z  ==>  <<x,t>>, <<y,t>>, <<z,"object">>         *)
(* `- (either a b)' gives type "#either"; a dangling `-' gives "#bad".     *)

RECURSIVE TLAux(_, _, _)
TLAux(toks, pending, acc) ==
  IF toks = <<>> THEN acc \o [i \in DOMAIN pending |-> <<pending[i], "object">>]
  ELSE IF IsSymV(toks[1], "-") THEN
         IF Len(toks) < 2 THEN acc \o [i \in DOMAIN pending |-> <<pending[i], "#bad">>]
         ELSE LET ty == IF IsSym(toks[2]) THEN toks[2].v
                        ELSE IF HeadSym(toks[2]) = "either" THEN "#either" ELSE "#bad"
              IN  TLAux(SubSeq(toks, 3, Len(toks)), <<>>,
                        acc \o [i \in DOMAIN pending |-> <<pending[i], ty>>])
  ELSE IF IsSym(toks[1]) THEN TLAux(Tail(toks), Append(pending, toks[1].v), acc)
  ELSE TLAux(Tail(toks), Append(pending, "#bad"), acc)

TypedList(toks) == TLAux(toks, <<>>, <<>>)

\* rendering of a typed list; style "each": x - t y - t ; "group": x y - t
\* (runs of equal type grouped); "untyped": names only (legal when all are object)
RECURSIVE TLTreeEach(_)
TLTreeEach(pairs) ==
  IF pairs = <<>> THEN <<>>
  ELSE <<Sy(pairs[1][1]), Sy("-"), Sy(pairs[1][2])>> \o TLTreeEach(Tail(pairs))

RECURSIVE TLTreeGroup(_)
TLTreeGroup(pairs) ==
  IF pairs = <<>> THEN <<>>
  ELSE IF Len(pairs) > 1 /\ pairs[2][2] = pairs[1][2]
       THEN <<Sy(pairs[1][1])>> \o TLTreeGroup(Tail(pairs))
       ELSE <<Sy(pairs[1][1]), Sy("-"), Sy(pairs[1][2])>> \o TLTreeGroup(Tail(pairs))

\* trailing run of "object"-typed names may be written without a type
RECURSIVE TLTreeTrail(_)
TLTreeTrail(pairs) ==
  IF pairs = <<>> THEN <<>>
  ELSE IF \A i \in DOMAIN pairs : pairs[i][2] = "object"
       THEN [i \in DOMAIN pairs |-> Sy(pairs[i][1])]
       ELSE IF Len(pairs) > 1 /\ pairs[2][2] = pairs[1][2]
            THEN <<Sy(pairs[1][1])>> \o TLTreeTrail(Tail(pairs))
            ELSE <<Sy(pairs[1][1]), Sy("-"), Sy(pairs[1][2])>> \o TLTreeTrail(Tail(pairs))

TLTree(pairs, style) ==
  CASE style = "each"  -> TLTreeEach(pairs)
    [] style = "group" -> TLTreeGroup(pairs)
    [] style = "trail" -> TLTreeTrail(pairs)

----------------------------------------------------------------------------
(* Numeric expressions *)

RECURSIVE ExprOfTree(_)
ExprOfTree(x) ==
  IF IsNum(x) THEN [k |-> "num", v |-> x.v]
  ELSE IF IsSym(x) THEN [k |-> "bad"]
  ELSE IF Len(x.c) = 0 \/ ~IsSym(x.c[1]) THEN [k |-> "bad"]
  ELSE IF x.c[1].v \in ArithOps THEN
         IF Len(x.c) = 3
         THEN [k |-> "bin", op |-> x.c[1].v, l |-> ExprOfTree(x.c[2]), r |-> ExprOfTree(x.c[3])]
         ELSE [k |-> "nary", op |-> x.c[1].v, es |-> [i \in 1..(Len(x.c) - 1) |-> ExprOfTree(x.c[i + 1])]]
  ELSE IF AllSyms(Rest(x)) THEN [k |-> "fl", f |-> x.c[1].v, a |-> SymVals(Rest(x))]
  ELSE [k |-> "bad"]

RECURSIVE TreeOfExpr(_)
TreeOfExpr(e) ==
  CASE e.k = "num"  -> Nu(e.v)
    [] e.k = "fl"   -> Li(<<Sy(e.f)>> \o [i \in DOMAIN e.a |-> Sy(e.a[i])])
    [] e.k = "bin"  -> Li(<<Sy(e.op), TreeOfExpr(e.l), TreeOfExpr(e.r)>>)
    [] e.k = "nary" -> Li(<<Sy(e.op)>> \o [i \in DOMAIN e.es |-> TreeOfExpr(e.es[i])])

----------------------------------------------------------------------------
(* Formulas *)

\* (?v - t)  ==> <<v, t>>
QuantVar(x) ==
  IF IsList(x) /\ Len(x.c) = 3 /\ AllSyms(x.c) /\ x.c[2].v = "-"
  THEN <<x.c[1].v, x.c[3].v>> ELSE <<"#bad", "#bad">>

RECURSIVE FormulaOfTree(_)
FormulaOfTree(x) ==
  IF ~IsList(x) THEN [k |-> "bad"]
  ELSE IF Len(x.c) = 0 THEN TrueF
  ELSE IF ~IsSym(x.c[1]) THEN [k |-> "bad"]
  ELSE LET h == x.c[1].v   n == Len(x.c) - 1 IN
    CASE h \in {"and", "or"} ->
           [k |-> h, fs |-> [i \in 1..n |-> FormulaOfTree(x.c[i + 1])]]
      [] h = "not" ->
           IF n = 1 THEN [k |-> "not", f |-> FormulaOfTree(x.c[2])] ELSE [k |-> "bad"]
      [] h = "imply" ->
           IF n = 2 THEN [k |-> "imply", l |-> FormulaOfTree(x.c[2]), r |-> FormulaOfTree(x.c[3])]
           ELSE [k |-> "bad"]
      [] h \in {"forall", "exists"} ->
           IF n = 2 THEN LET q == QuantVar(x.c[2])
                         IN [k |-> h, v |-> q[1], t |-> q[2], f |-> FormulaOfTree(x.c[3])]
           ELSE [k |-> "bad"]
      [] h = "=" /\ n = 2 /\ IsSym(x.c[2]) /\ IsSym(x.c[3]) ->
           [k |-> "eq", l |-> x.c[2].v, r |-> x.c[3].v]
      [] h \in CmpOps ->
           IF n = 2 THEN [k |-> "cmp", op |-> h, l |-> ExprOfTree(x.c[2]), r |-> ExprOfTree(x.c[3])]
           ELSE [k |-> "bad"]
      [] OTHER ->
           IF AllSyms(Rest(x)) THEN [k |-> "atom", p |-> h, a |-> SymVals(Rest(x))]
           ELSE [k |-> "bad"]

RECURSIVE TreeOfFormula(_)
TreeOfFormula(f) ==
  CASE f.k = "atom"   -> Li(<<Sy(f.p)>> \o [i \in DOMAIN f.a |-> Sy(f.a[i])])
    [] f.k = "not"    -> Li(<<Sy("not"), TreeOfFormula(f.f)>>)
    [] f.k = "eq"     -> Li(<<Sy("="), Sy(f.l), Sy(f.r)>>)
    [] f.k \in {"and", "or"} -> Li(<<Sy(f.k)>> \o [i \in DOMAIN f.fs |-> TreeOfFormula(f.fs[i])])
    [] f.k = "imply"  -> Li(<<Sy("imply"), TreeOfFormula(f.l), TreeOfFormula(f.r)>>)
    [] f.k \in {"forall", "exists"} ->
         Li(<<Sy(f.k), Li(<<Sy(f.v), Sy("-"), Sy(f.t)>>), TreeOfFormula(f.f)>>)
    [] f.k = "cmp"    -> Li(<<Sy(f.op), TreeOfExpr(f.l), TreeOfExpr(f.r)>>)

----------------------------------------------------------------------------
(* Effects *)

SimpleEffOfTree(x) ==
  IF ~IsList(x) \/ Len(x.c) = 0 \/ ~IsSym(x.c[1]) THEN [k |-> "bad"]
  ELSE LET h == x.c[1].v   n == Len(x.c) - 1 IN
    CASE h = "not" ->
           IF n = 1 /\ IsList(x.c[2]) /\ Len(x.c[2].c) > 0 /\ AllSyms(x.c[2].c)
           THEN [k |-> "del", p |-> x.c[2].c[1].v, a |-> SymVals(Rest(x.c[2]))]
           ELSE [k |-> "bad"]
      [] h \in UpdOps \cup ScaleOps ->
           IF n = 2 /\ IsList(x.c[2]) /\ Len(x.c[2].c) > 0 /\ AllSyms(x.c[2].c)
           THEN [k |-> "upd", op |-> h, f |-> x.c[2].c[1].v, a |-> SymVals(Rest(x.c[2])),
                 e |-> ExprOfTree(x.c[3])]
           ELSE [k |-> "bad"]
      [] OTHER ->
           IF AllSyms(Rest(x)) THEN [k |-> "add", p |-> h, a |-> SymVals(Rest(x))]
           ELSE [k |-> "bad"]

\* body of a when: a single simple effect or (and simple*)
WhenBody(x) ==
  IF HeadSym(x) = "and" THEN [i \in 1..(Len(x.c) - 1) |-> SimpleEffOfTree(x.c[i + 1])]
  ELSE <<SimpleEffOfTree(x)>>

\* condition of a when: kept exactly as written
EffOfTree(x) ==
  LET h == HeadSym(x) IN
  CASE h = "when" ->
         IF Len(x.c) = 3 THEN [k |-> "when", c |-> FormulaOfTree(x.c[2]), es |-> WhenBody(x.c[3])]
         ELSE [k |-> "bad"]
    [] h = "forall" ->
         IF Len(x.c) = 3 THEN
           LET q == QuantVar(x.c[2])  b == x.c[3] IN
           IF HeadSym(b) = "when" /\ Len(b.c) = 3
           THEN [k |-> "forall", v |-> q[1], t |-> q[2], c |-> FormulaOfTree(b.c[2]), es |-> WhenBody(b.c[3]), bare |-> FALSE]
           ELSE [k |-> "forall", v |-> q[1], t |-> q[2], c |-> TrueF, es |-> WhenBody(b), bare |-> TRUE]
         ELSE [k |-> "bad"]
    [] h = "and" -> [k |-> "nestedand", es |-> WhenBody(x)]
    [] OTHER -> SimpleEffOfTree(x)

\* whole :effect body.  body = "and" | "single" records how it was written.
EffectsOfTree(x) ==
  IF IsList(x) /\ Len(x.c) = 0 THEN <<>>
  ELSE IF HeadSym(x) = "and" THEN [i \in 1..(Len(x.c) - 1) |-> EffOfTree(x.c[i + 1])]
  ELSE <<EffOfTree(x)>>

TreeOfSimpleEff(e) ==
  CASE e.k = "add" -> Li(<<Sy(e.p)>> \o [i \in DOMAIN e.a |-> Sy(e.a[i])])
    [] e.k = "del" -> Li(<<Sy("not"), Li(<<Sy(e.p)>> \o [i \in DOMAIN e.a |-> Sy(e.a[i])])>>)
    [] e.k = "upd" -> Li(<<Sy(e.op), Li(<<Sy(e.f)>> \o [i \in DOMAIN e.a |-> Sy(e.a[i])]), TreeOfExpr(e.e)>>)

\* a when body of one simple effect may be written bare (single = TRUE)
TreeOfBody(es, single) ==
  IF single /\ Len(es) = 1 THEN TreeOfSimpleEff(es[1])
  ELSE Li(<<Sy("and")>> \o [i \in DOMAIN es |-> TreeOfSimpleEff(es[i])])

TreeOfEff(e, single) ==
  CASE e.k \in {"add", "del", "upd"} -> TreeOfSimpleEff(e)
    [] e.k = "when" -> Li(<<Sy("when"), TreeOfFormula(e.c), TreeOfBody(e.es, single)>>)
    [] e.k = "forall" ->
         Li(<<Sy("forall"), Li(<<Sy(e.v), Sy("-"), Sy(e.t)>>),
             Li(<<Sy("when"), TreeOfFormula(e.c), TreeOfBody(e.es, single)>>)>>)

TreeOfEffects(effs, single) == Li(<<Sy("and")>> \o [i \in DOMAIN effs |-> TreeOfEff(effs[i], single)])

----------------------------------------------------------------------------
(* Domains *)

\* the sections of (define ...) after the name, by head symbol
Sections(x, h) == SelectSeq(Rest(x), LAMBDA s : HeadSym(s) = h)
HasSection(x, h) == Sections(x, h) # <<>>
Section1(x, h) == Sections(x, h)[1]

PairsToFn(pairs) ==
  [n \in {pairs[i][1] : i \in DOMAIN pairs} |->
      pairs[CHOOSE i \in DOMAIN pairs : pairs[i][1] = n /\ \A j \in DOMAIN pairs : pairs[j][1] = n => j <= i][2]]

\* value of a :keyword inside an action body: the element following it
AfterKey(items, key) ==
  IF \E i \in DOMAIN items : IsSymV(items[i], key) /\ i < Len(items)
  THEN items[(CHOOSE i \in DOMAIN items : IsSymV(items[i], key) /\ i < Len(items)) + 1]
  ELSE Li(<<>>)

ActionOfTree(x) ==
  LET items == Rest(x)
      body  == Tail(items)
      pre   == AfterKey(body, ":precondition")
      eff   == AfterKey(body, ":effect")
  IN [name   |-> IF items # <<>> /\ IsSym(items[1]) THEN items[1].v ELSE "#bad",
      params |-> IF IsList(AfterKey(body, ":parameters")) THEN TypedList(AfterKey(body, ":parameters").c) ELSE <<<<"#bad", "#bad">>>>,
      pre    |-> FormulaOfTree(pre),
      eff    |-> EffectsOfTree(eff),
      \* how the bodies were written (decides membership in the supported fragment)
      preHead |-> IF IsList(pre) /\ Len(pre.c) = 0 THEN "empty" ELSE HeadSym(pre),
      effHead |-> IF IsList(eff) /\ Len(eff.c) = 0 THEN "empty" ELSE HeadSym(eff)]

DeclOfTree(x) == [name |-> HeadSym(x), params |-> TypedList(Rest(x))]

DomainOfTree(x) ==
  LET nm    == IF HasSection(x, "domain") /\ Len(Section1(x, "domain").c) = 2 /\ IsSym(Section1(x, "domain").c[2])
               THEN Section1(x, "domain").c[2].v ELSE "#bad"
      types == IF HasSection(x, ":types") THEN TypedList(Rest(Section1(x, ":types"))) ELSE <<>>
      consts == IF HasSection(x, ":constants") THEN TypedList(Rest(Section1(x, ":constants"))) ELSE <<>>
      \* MA-PDDL: (:private decl*) inside :predicates contributes its declarations
      predItems == IF HasSection(x, ":predicates")
                   THEN FlattenSeq([i \in DOMAIN Rest(Section1(x, ":predicates")) |->
                          LET it == Rest(Section1(x, ":predicates"))[i]
                          IN  IF HeadSym(it) = ":private" THEN SelectSeq(Rest(it), IsList) ELSE <<it>>])
                   ELSE <<>>
      preds == [i \in DOMAIN predItems |-> DeclOfTree(predItems[i])]
      funcs == IF HasSection(x, ":functions") THEN [i \in DOMAIN Rest(Section1(x, ":functions")) |-> DeclOfTree(Rest(Section1(x, ":functions"))[i])] ELSE <<>>
      acts  == Sections(x, ":action")
  IN [ok      |-> HeadSym(x) = "define",
      name    |-> nm,
      reqs    |-> IF HasSection(x, ":requirements") THEN {s.v : s \in Range(Rest(Section1(x, ":requirements")))} ELSE {},
      typeDecl |-> types,               \* declaration pairs <<child, parent>> in source order
      consts  |-> consts,               \* <<name, type>> in source order
      preds   |-> preds,                \* [name, params] in source order
      funcs   |-> funcs,
      actions |-> [i \in DOMAIN acts |-> ActionOfTree(acts[i])]]

TreeOfDecl(d, style) == Li(<<Sy(d.name)>> \o TLTree(d.params, style))

TreeOfAction(a, style, single) ==
  Li(<<Sy(":action"), Sy(a.name),
      Sy(":parameters"), Li(TLTree(a.params, style)),
      Sy(":precondition"), TreeOfFormula(a.pre),
      Sy(":effect"), TreeOfEffects(a.eff, single)>>)

\* d: [name, reqs (Seq), typeLines (Seq of token seqs), consts, preds, funcs, actions]
TreeOfDomain(d, style, single) ==
  Li(<<Sy("define"), Li(<<Sy("domain"), Sy(d.name)>>),
      Li(<<Sy(":requirements")>> \o [i \in DOMAIN d.reqs |-> Sy(d.reqs[i])])>>
    \o (IF d.typeDecl # <<>> THEN <<Li(<<Sy(":types")>> \o TLTree(d.typeDecl, style))>> ELSE <<>>)
    \o (IF d.consts # <<>> THEN <<Li(<<Sy(":constants")>> \o TLTree(d.consts, style))>> ELSE <<>>)
    \o <<Li(<<Sy(":predicates")>> \o [i \in DOMAIN d.preds |-> TreeOfDecl(d.preds[i], style)])>>
    \o (IF d.funcs # <<>> THEN <<Li(<<Sy(":functions")>> \o [i \in DOMAIN d.funcs |-> TreeOfDecl(d.funcs[i], "each")])>> ELSE <<>>)
    \o [i \in DOMAIN d.actions |-> TreeOfAction(d.actions[i], style, single)])

----------------------------------------------------------------------------
(* The type forest of a domain: parent map from the declaration pairs,     *)
(* independent of their order.  A name that only occurs as a parent is a   *)
(* child of object.                                                        *)

ParentOf(typeDecl) ==
  LET names == {typeDecl[i][1] : i \in DOMAIN typeDecl} \cup {typeDecl[i][2] : i \in DOMAIN typeDecl}
  IN [n \in names \ {"object"} |->
        IF \E i \in DOMAIN typeDecl : typeDecl[i][1] = n
        THEN typeDecl[CHOOSE i \in DOMAIN typeDecl : typeDecl[i][1] = n][2]
        ELSE "object"]

----------------------------------------------------------------------------
(* Problems, states and trajectories *)

FactOfTree(x) == <<HeadSym(x), SymVals(Rest(x))>>

\* (= (f a b) 3)
IsFluentAssign(x) == HeadSym(x) = "=" /\ Len(x.c) = 3 /\ IsList(x.c[2]) /\ IsNum(x.c[3])

\* state-like list of items (facts and fluent assignments)
StateOfItems(items) ==
  LET F == {i \in DOMAIN items : ~(HeadSym(items[i]) = "=")}
      A == {i \in DOMAIN items : IsFluentAssign(items[i])}
  IN [facts |-> {FactOfTree(items[i]) : i \in F},
      fl    |-> [g \in {FactOfTree(items[i].c[2]) : i \in A} |->
                    items[CHOOSE i \in A : FactOfTree(items[i].c[2]) = g].c[3].v],
      \* the exact text of each value (canonical text of the double), when the reader supplied it
      ex    |-> [g \in {FactOfTree(items[i].c[2]) : i \in A} |->
                    LET tok == items[CHOOSE i \in A : FactOfTree(items[i].c[2]) = g].c[3]
                    IN  IF "x" \in DOMAIN tok THEN tok.x ELSE "?"],
      shapeOk |-> /\ \A i \in DOMAIN items : IsList(items[i]) /\ Len(items[i].c) > 0 /\ IsSym(items[i].c[1])
                  /\ \A i \in DOMAIN items : HeadSym(items[i]) = "=" => i \in A
                  /\ \A i \in F : AllSyms(items[i].c)
                  /\ \A i \in A : AllSyms(items[i].c[2].c),
      \* a fluent assigned twice with different values: PDDL gives this no meaning
      conflict |-> \E i, j \in A : FactOfTree(items[i].c[2]) = FactOfTree(items[j].c[2]) /\ items[i].c[3].v # items[j].c[3].v]

GoalOfTree(x) ==
  LET items == IF HeadSym(x) = "and" THEN Rest(x) ELSE <<x>>
      C == {i \in DOMAIN items : HeadSym(items[i]) \in CmpOps /\ Len(items[i].c) = 3 /\ ~(IsSym(items[i].c[2]) /\ IsSym(items[i].c[3]))}
  IN [lits |-> {FactOfTree(items[i]) : i \in DOMAIN items \ C},
      cmps |-> {FormulaOfTree(items[i]) : i \in C}]

ProblemOfTree(x) ==
  LET \* MA-PDDL: (:private name* - type ...) inside :objects contributes its objects
      objToks == IF HasSection(x, ":objects") THEN Rest(Section1(x, ":objects")) ELSE <<>>
      objs == TypedList(SelectSeq(objToks, LAMBDA tk : ~IsList(tk)))
              \o FlattenSeq([i \in DOMAIN SelectSeq(objToks, IsList) |->
                    LET it == SelectSeq(objToks, IsList)[i]
                    IN  IF HeadSym(it) = ":private" THEN TypedList(Rest(it)) ELSE <<<<"#bad", "#bad">>>>])
      init == IF HasSection(x, ":init") THEN Rest(Section1(x, ":init")) ELSE <<>>
      goal == IF HasSection(x, ":goal") /\ Len(Section1(x, ":goal").c) = 2 THEN Section1(x, ":goal").c[2] ELSE Li(<<Sy("and")>>)
  IN [ok     |-> HeadSym(x) = "define",
      name   |-> IF HasSection(x, "problem") /\ Len(Section1(x, "problem").c) = 2 /\ IsSym(Section1(x, "problem").c[2]) THEN Section1(x, "problem").c[2].v ELSE "#bad",
      domain |-> IF HasSection(x, ":domain") /\ Len(Section1(x, ":domain").c) = 2 /\ IsSym(Section1(x, ":domain").c[2]) THEN Section1(x, ":domain").c[2].v ELSE "#bad",
      objs   |-> objs,
      init   |-> StateOfItems(init),
      goal   |-> GoalOfTree(goal)]

\* rendering of a problem given as sequences (so that the order of the items in
\* the text is a choice of the renderer):
\*   P = [name, domain, objs : Seq(<<o,t>>), facts : Seq(<<p,args>>),
\*        fls : Seq(<<f,args,val>>), glits : Seq(<<p,args>>), gcmps : Seq(Formula)]
TreeOfAssign(x) == Li(<<Sy("="), Li(<<Sy(x[1])>> \o [i \in DOMAIN x[2] |-> Sy(x[2][i])]), Nu(x[3])>>)
TreeOfProblem(P, style) ==
  Li(<<Sy("define"), Li(<<Sy("problem"), Sy(P.name)>>), Li(<<Sy(":domain"), Sy(P.domain)>>),
       Li(<<Sy(":objects")>> \o TLTree(P.objs, style)),
       Li(<<Sy(":init")>> \o [i \in DOMAIN P.facts |-> Li(<<Sy(P.facts[i][1])>> \o [j \in DOMAIN P.facts[i][2] |-> Sy(P.facts[i][2][j])])]
                          \o [i \in DOMAIN P.fls |-> TreeOfAssign(P.fls[i])]),
       Li(<<Sy(":goal"), Li(<<Sy("and")>> \o [i \in DOMAIN P.glits |-> Li(<<Sy(P.glits[i][1])>> \o [j \in DOMAIN P.glits[i][2] |-> Sy(P.glits[i][2][j])])]
                                       \o [i \in DOMAIN P.gcmps |-> TreeOfFormula(P.gcmps[i])])>>)>>)

\* serialized state:  (:init item*)  or  (:state item*)
StateOfTree(x) == [hdr |-> HeadSym(x), st |-> StateOfItems(Rest(x))]

TreeOfFact(g) == Li(<<Sy(g[1])>> \o [i \in DOMAIN g[2] |-> Sy(g[2][i])])
=============================================================================
