------------------------------ MODULE TraceSexp -------------------------------
(***************************************************************************)
(* Trace validation for the reader (C11): each record of the trace file is *)
(* one call  PDDLTokenizer(...).parse()  with the text it was given (as    *)
(* characters), how it was given (string or file) and what came back: the  *)
(* nested lists, tagged, or an exception.  The outcome must be Sexp!Read of *)
(* the same characters (an exception iff Err), except on the texts Sexp     *)
(* leaves open.  A VERDICT line is printed for rejected records only; the   *)
(* number of records consumed is checked by the POSTCONDITION.              *)
(***************************************************************************)
EXTENDS Sexp, Json, IOUtils

Recs == ndJsonDeserialize(IOEnv.TRACE_FILE)

VARIABLE i
Has(e, k) == k \in DOMAIN e

CONSTANT KnownDevs

\* Known deviation "TailIgnored": the library returns the first complete form
\* and ignores whatever follows it (further forms, tokens, closing parentheses).
ReadPrefix(tx) == LET ts == Tokens(tx) r2 == ParseAt(ts, 1) IN IF r2.ok THEN r2.tree ELSE Err

AdmittedAs(rec, want) ==
  IF Has(rec.out, "exc") THEN want = Err ELSE want # Err /\ rec.out.tree = want

Verdict(rec) ==
  LET tx == rec.chars IN
  IF Open(tx) \/ AdmittedAs(rec, Read(tx)) THEN "ok"
  ELSE IF "TailIgnored" \in KnownDevs /\ Read(tx) = Err /\ ReadPrefix(tx) # Err /\ AdmittedAs(rec, ReadPrefix(tx))
       THEN "TailIgnored"
       ELSE "fail"

Init == i = 1 /\ TLCSet(1, 0)
Next == /\ i <= Len(Recs)
        /\ LET v == Verdict(Recs[i]) IN
             IF v = "ok" THEN TRUE
             ELSE IF v = "fail" THEN PrintT(<<"VERDICT", Recs[i].id, "ReadSexp", {}, 1>>)
             ELSE PrintT(<<"VERDICT", Recs[i].id, "", {v}, 1>>)
        /\ TLCSet(1, i)
        /\ i' = i + 1
Spec == Init /\ [][Next]_i
AllConsumed == TLCGet(1) = Len(Recs) /\ PrintT(<<"CONSUMED", Len(Recs)>>)
=============================================================================
