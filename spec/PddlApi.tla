------------------------------ MODULE PddlApi --------------------------------
(***************************************************************************)
(* The library as a state machine.  The library is sequential and keeps no *)
(* global state of its own (that it does not is part of C07/C17), so the   *)
(* abstract state is the *store of live objects a client holds*: domains,  *)
(* problems, states, operators, trajectories, each under a handle.  Every  *)
(* public call is one action: it reads some handles, returns a value or a  *)
(* fresh handle, and - this is the purity requirement - leaves every other *)
(* handle's value untouched.                                               *)
(*                                                                         *)
(* Each call X is given by                                                 *)
(*    X_Exp(store, a)   the set of admissible outcomes, as a record        *)
(*                      [any, err, vals]: any outcome / an exception /     *)
(*                      one of the values `vals'                           *)
(*    X_Upd(store, a, obs)   the store after the call, given the outcome   *)
(* MC_Api drives these with small constants; TraceApi binds `a' and `obs'  *)
(* to a recorded execution of the real library.  dv is the set of enabled  *)
(* named deviations (known findings); {} is the specification proper.      *)
(***************************************************************************)
EXTENDS MultiAgent, Rename, Combine

CONSTANT Eps            \* the comparison tolerance, a rational

AnyOutcome        == [any |-> TRUE,  err |-> TRUE,  vals |-> {}]
OnlyErr    == [any |-> FALSE, err |-> TRUE,  vals |-> {}]
Vals(S)    == [any |-> FALSE, err |-> FALSE, vals |-> S]
ValsOrErr(S) == [any |-> FALSE, err |-> TRUE, vals |-> S]

\* an observation is [exc |-> TRUE] or [exc |-> FALSE, val |-> v]
Admits(exp, obs) ==
  \/ exp.any
  \/ obs.exc /\ exp.err
  \/ ~obs.exc /\ obs.val \in exp.vals

----------------------------------------------------------------------------
(* States as values *)

\* exact value texts agree wherever both sides know them ("?" = not supplied)
ExSame(e1, e2) == DOMAIN e1 = DOMAIN e2 /\ \A g \in DOMAIN e1 : e1[g] = e2[g] \/ e1[g] = "?" \/ e2[g] = "?"

StEq(s1, s2) ==
  /\ s1.facts = s2.facts
  /\ DOMAIN s1.fl = DOMAIN s2.fl
  /\ \A g \in DOMAIN s1.fl : s1.fl[g] = s2.fl[g]      \* rationals are normalised on both sides

----------------------------------------------------------------------------
(* ParseDomain: a = [tree].  The stored value is the spec's own reading of *)
(* the text; the library's vocabulary must equal it, or - for a domain with *)
(* a lenient construct - the call may raise.                               *)

AllSupported(D) == SupDecls(D) /\ \A i \in DOMAIN D.actions : SupAction(D.actions[i], CtxOf(D))

ParseDomain_Exp(tree) ==
  LET D == DomainOfTree(tree)
  IN  IF AllSupported(D) THEN Vals({VocabOf(D)}) ELSE ValsOrErr({VocabOf(D)})

----------------------------------------------------------------------------
(* IsApplicable: a = [D, u, act, args, st] *)

IsApplicable_Exp(D, u, act, args, st, dv) ==
  IF ~HasAction(D, act) THEN AnyOutcome
  ELSE LET a == ActionNamed(D, act) IN
    IF Len(args) # Len(a.params) THEN AnyOutcome
    ELSE LET h == Holds3(a.pre, EnvOfCall(a, args), st, u, Eps, dv)
             lenient == ~SupAction(a, CtxOf(D))
         IN  IF h = "U" THEN AnyOutcome
             ELSE [any |-> FALSE, err |-> lenient, vals |-> {h = "T"}]

----------------------------------------------------------------------------
(* Apply: a = [D, u, act, args, st, allow, skip].  Refused (an error) when *)
(* the precondition is false unless the caller allowed inapplicable        *)
(* actions or skipped validation; otherwise the PDDL successor.            *)

Apply_Exp(D, u, act, args, st, allow, skip, dv) ==
  IF ~HasAction(D, act) THEN AnyOutcome
  ELSE LET a == ActionNamed(D, act) IN
    IF Len(args) # Len(a.params) THEN AnyOutcome
    ELSE LET env == EnvOfCall(a, args)
             h   == Holds3(a.pre, env, st, u, Eps, dv)
             lenient == ~SupAction(a, CtxOf(D))
         IN  IF h = "U" /\ ~skip THEN AnyOutcome
             ELSE IF h = "F" /\ ~allow /\ ~skip THEN OnlyErr
             ELSE LET s == Succ(a.eff, env, st, u, Eps, dv)
                  IN  IF ~s.ok THEN AnyOutcome
                      ELSE [any |-> FALSE, err |-> lenient, vals |-> {s.st}]

----------------------------------------------------------------------------
(* RunPlan: a = [D, u, plan, init, allow]: the trajectory the transition     *)
(* function dictates (Plan!Run).  The first pre-state carries the header     *)
(* ":init", every other state ":state".                                      *)

RunPlan_Exp(D, u, plan, init, allow, dv) == Run(D, u, plan, init, allow, Eps, dv)

\* obs: sequence of [pre, op, post, preHdr, postHdr]; judged against the steps
\* the specification determines (all of them unless the run went into an open region)
RunAdmits(exp, obs, nPlan) ==
  /\ Len(obs) = nPlan
  /\ \A i \in DOMAIN exp.steps :
        /\ StEq(obs[i].pre, exp.steps[i].pre)
        /\ StEq(obs[i].post, exp.steps[i].post)
        /\ obs[i].op = exp.steps[i].op
        /\ obs[i].preHdr = (IF i = 1 THEN ":init" ELSE ":state")
        /\ obs[i].postHdr = ":state"
  \* chained as values, whatever the specification leaves open
  /\ \A i \in 1..(Len(obs) - 1) : StEq(obs[i + 1].pre, obs[i].post) /\ ExSame(obs[i + 1].pre.ex, obs[i].post.ex)

----------------------------------------------------------------------------
(* ParseProblem: a = [D, tree].  A well-formed problem is returned with      *)
(* exactly its objects, initial facts / fluent values and goals; anything    *)
(* else is rejected with an error.                                           *)

ProblemProj(P) ==
  [name |-> P.name, objs |-> Range(P.objs), facts |-> P.init.facts, fl |-> P.init.fl, ex |-> P.init.ex,
   glits |-> P.goal.lits, gcmps |-> P.goal.cmps]

ProjEq(a, b) ==
  /\ a.name = b.name /\ a.objs = b.objs /\ a.glits = b.glits /\ a.gcmps = b.gcmps
  /\ StEq([facts |-> a.facts, fl |-> a.fl], [facts |-> b.facts, fl |-> b.fl])
  /\ ExSame(a.ex, b.ex)   \* values are preserved exactly, not just up to the snapping tolerance

\* [accept : must the call return?, proj]
\* Known deviation "RepeatedFluentArg" at the goal: the fluent terms of numeric
\* goal conditions lose repeated arguments ((h o6 o6) is stored as (h o6)).
CollapseCmps(cs) == {[c EXCEPT !.l = GroundExpr(c.l, <<>>, TRUE), !.r = GroundExpr(c.r, <<>>, TRUE)] : c \in cs}
ParseProblem_Exp(D, tree, dv) ==
  LET P == ProblemOfTree(tree)
      pj == ProblemProj(P)
  IN  [accept |-> WFProblemD(D, P, dv),
       proj |-> IF "RepeatedFluentArg" \in dv THEN [pj EXCEPT !.gcmps = CollapseCmps(pj.gcmps)] ELSE pj,
       \* under "GoalFluentUnchecked" an accepted problem whose only defect is an
       \* ill-formed goal fluent has no specified goal conditions
       goalsFixed |-> WFProblemD(D, P, {}),
       \* left open: a fluent assigned twice with different values
       open |-> P.init.conflict]

----------------------------------------------------------------------------
(* Type queries on a parsed domain (C06) *)
SubTypeOf(D, a, b) == SubType(ParentOf(D.typeDecl), a, b)
TypeEdges(D) == {<<ParentOf(D.typeDecl)[n], n>> : n \in TypeNamesOf(D)}

\* outcome comparison for states is up to StEq (rationals may arrive unnormalised)
AdmitsState(exp, obs) ==
  \/ exp.any
  \/ obs.exc /\ exp.err
  \/ ~obs.exc /\ \E s \in exp.vals : StEq(s, obs.val)
=============================================================================
