---------------------------- MODULE MC_Semantics ------------------------------
(***************************************************************************)
(* Bounded model of the semantic core (C02, C03, C06-ranges, C12-eval).    *)
(*                                                                         *)
(* TLC enumerates every formula / effect list of a bounded family over a   *)
(* two-object typed universe, every state of that universe and every       *)
(* argument tuple, and checks that the *small-step* models of what an      *)
(* implementation is free to do (fold an operand set in any order, apply   *)
(* effect groups / quantified objects in any order) refine the declarative *)
(* definitions Holds3 / Succ.  Mode selects the family:                    *)
(*    "pre"  formulas        "eff"  effect lists                           *)
(* The negative-control invariants (Bad...) are the plausible / as-found   *)
(* implementation mistakes; each must be *refuted* by TLC.                 *)
(* The same families are emitted (Gen_Core) as token trees and replayed    *)
(* into the library.                                                       *)
(***************************************************************************)
EXTENDS CoreFamily

----------------------------------------------------------------------------
VARIABLES prog, st, env, ph
vars == <<prog, st, env, ph>>

\* two levels only: a program is chosen in Init (phase 0), then a state and a
\* binding (phase 1); invariants are evaluated in phase 1.  The graph is a tree,
\* so every (program, state, binding) triple is generated exactly once.
Init == /\ prog \in (IF Mode = "pre" THEN Formulas ELSE EffLists)
        /\ st = [facts |-> {}, fl |-> [g \in FlKeys |-> <<0, 1>>]]
        /\ env = [v \in {"?x", "?y"} |-> "a"]
        /\ ph = 0
Next == /\ ph = 0 /\ ph' = 1
        /\ prog' = prog
        /\ st' \in States
        /\ env' \in Envs
Spec == Init /\ [][Next]_vars

----------------------------------------------------------------------------
(* C02: folding the operands of a connective one at a time, in any order,   *)
(* from the neutral element, is the declarative truth value.               *)

OperandTruths(f) == [i \in DOMAIN f.fs |-> Holds3(f.fs[i], env, st, U, EpsM, {})]

RECURSIVE FoldOK(_, _)
FoldOK(f, identity) ==
  IF f.k \in {"and", "or"} THEN
     /\ \A perm \in Permutations(DOMAIN f.fs) :
           FoldEval(f.k, [i \in 1..Len(f.fs) |-> OperandTruths(f)[perm[i]]], identity)
             = Holds3(f, env, st, U, EpsM, {})
     /\ \A i \in DOMAIN f.fs : FoldOK(f.fs[i], identity)
  ELSE TRUE

FoldRefines == Mode = "pre" => FoldOK(prog, TRUE)
\* negative control: accumulator always starts from "T" (the as-found `or' fold)
BadFoldInit == Mode = "pre" => FoldOK(prog, FALSE)

\* sanity laws of the definition itself
RECURSIVE Dual(_)
Dual(f) ==
  CASE f.k = "and" -> [k |-> "or",  fs |-> [i \in DOMAIN f.fs |-> Dual(f.fs[i])]]
    [] f.k = "or"  -> [k |-> "and", fs |-> [i \in DOMAIN f.fs |-> Dual(f.fs[i])]]
    [] f.k = "not" -> f.f
    [] f.k = "forall" -> [k |-> "exists", v |-> f.v, t |-> f.t, f |-> Dual(f.f)]
    [] OTHER -> NotF(f)
DeMorgan == Mode = "pre" =>
  Holds3(Dual(prog), env, st, U, EpsM, {}) = Not3(Holds3(prog, env, st, U, EpsM, {}))

\* forall ranges over subtypes: negative control with exact type match
RECURSIVE HoldsExact(_, _)
HoldsExact(f, e) ==
  CASE f.k = "forall" -> AndSet({HoldsExact(f.f, Bind(e, f.v, o)) : o \in ObjsOfExact(U, f.t)})
    [] f.k = "and" -> AndSet({HoldsExact(f.fs[i], e) : i \in DOMAIN f.fs})
    [] f.k = "or"  -> OrSet({HoldsExact(f.fs[i], e) : i \in DOMAIN f.fs})
    [] OTHER -> Holds3(f, e, st, U, EpsM, {})
BadForallExact == Mode = "pre" => HoldsExact(prog, env) = Holds3(prog, env, st, U, EpsM, {})
\* negative control: the known deviation is a real difference
BadForallDropped == Mode = "pre" =>
  Holds3(prog, env, st, U, EpsM, {"ForallPreDropped"}) = Holds3(prog, env, st, U, EpsM, {})

----------------------------------------------------------------------------
(* C03: applying the firing groups one at a time, in any order, yields Succ *)

FiringNow == {g \in Groups(prog, env, U) : GroupTruth(g, st, U, EpsM, {}) = "T"}
Determined == \A g \in Groups(prog, env, U) : GroupTruth(g, st, U, EpsM, {}) # "U"

StEq2(s1, s2) == s1.facts = s2.facts /\ DOMAIN s1.fl = DOMAIN s2.fl /\ \A g \in DOMAIN s1.fl : s1.fl[g] = s2.fl[g]

OrderIndep(readNew) ==
  (Mode = "eff" /\ Succ(prog, env, st, U, EpsM, {}).ok) =>
     \A gs \in {SetToSeq(FiringNow)} \cup {s \in [1..Cardinality(FiringNow) -> FiringNow] : Range(s) = FiringNow} :
        LET r == ApplySeq(gs, st, st, readNew) IN StEq2(r, Succ(prog, env, st, U, EpsM, {}).st)

ApplyRefines == OrderIndep(FALSE)
\* negative control: right-hand sides read from the state being built (as found)
BadReadNew == OrderIndep(TRUE)

\* frame: nothing outside the write set changes
Frame == (Mode = "eff" /\ Succ(prog, env, st, U, EpsM, {}).ok) =>
  LET s2 == Succ(prog, env, st, U, EpsM, {}).st
      S  == SimpleOf(FiringNow)
  IN  /\ \A g \in FactsAll \ (AddsOf(S) \cup DelsOf(S)) : (g \in s2.facts) = (g \in st.facts)
      /\ \A g \in DOMAIN st.fl \ {Target(x) : x \in UpdsOf(S)} : s2.fl[g] = st.fl[g]
      /\ AddsOf(S) \subseteq s2.facts
      /\ (DelsOf(S) \ AddsOf(S)) \cap s2.facts = {}

\* negative control: every when fires regardless of its condition (as found)
AllFire == Groups(prog, env, U)
BadWhenAlways == (Mode = "eff" /\ Succ(prog, env, st, U, EpsM, {}).ok /\ Consistent(AllFire)) =>
  StEq2(ApplySeq(SetToSeq(AllFire), st, st, FALSE), Succ(prog, env, st, U, EpsM, {}).st)
=============================================================================
