-------------------------------- MODULE MC_Api ---------------------------------
(***************************************************************************)
(* The object model as a state machine over a heap (C07, C14).             *)
(*                                                                         *)
(* A State object of the library is a dictionary of mutable containers: one *)
(* set of facts per predicate and one fluent object per numeric fluent.    *)
(* The machine models exactly that: `heap' maps cell ids to contents, a    *)
(* state handle is a record of cell ids (one per predicate group, one per  *)
(* fluent), an operator handle owns a scratch cell in which it evaluates   *)
(* the fluent it writes.  The public calls are the actions:                *)
(*   Copy     - State.copy()                                               *)
(*   Apply    - Operator(...).apply(state, allow)   (fresh operator)       *)
(*   NewOp    - Operator(...)                                              *)
(*   ApplyOp  - the same Operator object applied again                     *)
(*   Eq       - state == state                                             *)
(*   Edit     - a fact added to / removed from a State in place            *)
(* `apply' is `copy, then write the effects into the copy in place', as in *)
(* the implementation.  Mode selects how sharing is handled:               *)
(*   "correct"     every container of a copy is fresh                      *)
(*   "sharedEmpty" a copy shares the containers that are empty  (negative  *)
(*                 control: a later in-place add shows up in both states)  *)
(*   "aliasOp"     the successor's fluent *is* the operator's scratch cell *)
(*                 (negative control: applying the operator again rewrites *)
(*                 the state it returned before)                           *)
(* Faithful says that every handle ever returned denotes, now and for ever, *)
(* the value the transition function of Semantics dictates - purity of all  *)
(* calls and correctness of each result in one invariant.                  *)
(*                                                                         *)
(* The behaviours of the correct machine are also what the conformance     *)
(* harness replays into the library: Emit prints every history of MaxLen   *)
(* calls (harness/drive_api.py executes them, TraceApi judges them).        *)
(***************************************************************************)
EXTENDS PlanFamily, Json, TLC

CONSTANT Mode

VARIABLES heap, next, sobj, oobj, want, hist
vars == <<heap, next, sobj, oobj, want, hist>>

Preds == {"p", "q"}
FactsOf(st, pr) == {f \in st.facts : f[1] = pr}
G == <<"g", <<>>>>

\* abstract value of a state handle
Val(h) == [facts |-> UNION {heap[sobj[h].grp[pr]] : pr \in Preds},
           fl |-> (G :> heap[sobj[h].g])]

SH(i) == "s" \o ToString(i)
OH(i) == "o" \o ToString(i)
NStates == Cardinality(DOMAIN sobj)
NOps == Cardinality(DOMAIN oobj)

\* what a direct application must do (PddlApi!Apply_Exp on this micro-domain)
ApplyRes(c, st, allow) ==
  LET a == ActionNamed(D, c.act)
      env == EnvOfCall(a, c.args)
  IN  IF Holds3(a.pre, env, st, U, EpsM, {}) = "F" /\ ~allow THEN [exc |-> TRUE, st |-> st]
      ELSE [exc |-> FALSE, st |-> Succ(a.eff, env, st, U, EpsM, {}).st]

Init ==
  \E i \in Inits :
    /\ heap = (1 :> FactsOf(i, "p")) @@ (2 :> FactsOf(i, "q")) @@ (3 :> i.fl[G])
    /\ next = 4
    /\ sobj = ("s0" :> [grp |-> [p |-> 1, q |-> 2], g |-> 3])
    /\ oobj = [x \in {} |-> 0]
    /\ want = ("s0" :> i)
    /\ hist = <<[c |-> "Init", facts |-> SetToSeq(i.facts), g |-> i.fl[G]]>>

\* cells of a copy of handle h allocated from `next': [grp, g, heap additions, next]
CopyCells(h) ==
  LET shareP == Mode = "sharedEmpty" /\ heap[sobj[h].grp["p"]] = {}
      shareQ == Mode = "sharedEmpty" /\ heap[sobj[h].grp["q"]] = {}
      cp == IF shareP THEN sobj[h].grp["p"] ELSE next
      cq == IF shareQ THEN sobj[h].grp["q"] ELSE next + 1
      cg == next + 2
  IN  [obj |-> [grp |-> [p |-> cp, q |-> cq], g |-> cg],
       heap |-> (cp :> heap[sobj[h].grp["p"]]) @@ (cq :> heap[sobj[h].grp["q"]]) @@ (cg :> heap[sobj[h].g]) @@ heap]

Copy(h) ==
  LET n == SH(NStates)
      cc == CopyCells(h)
  IN  /\ heap' = cc.heap /\ next' = next + 3
      /\ sobj' = (n :> cc.obj) @@ sobj
      /\ want' = (n :> want[h]) @@ want
      /\ hist' = Append(hist, [c |-> "Copy", s |-> h, h |-> n])
      /\ UNCHANGED oobj

\* copy, then write the effects into the copy's containers in place; the fluent
\* ends up in cell gcell (the copy's own, or the operator's scratch cell)
WriteSucc(h, n, res, gcellOf(_)) ==
  LET cc == CopyCells(h)
      gc == gcellOf(cc.obj.g)
      obj == [cc.obj EXCEPT !.g = gc]
  IN  /\ heap' = (gc :> res.fl[G]) @@ [cc.heap EXCEPT ![cc.obj.grp["p"]] = FactsOf(res, "p"),
                                                     ![cc.obj.grp["q"]] = FactsOf(res, "q")]
      /\ next' = next + 3
      /\ sobj' = (n :> obj) @@ sobj
      /\ want' = (n :> res) @@ want

Apply(h, c, allow) ==
  LET r == ApplyRes(c, Val(h), allow)
      n == SH(NStates)
  IN  IF r.exc
      THEN /\ hist' = Append(hist, [c |-> "Apply", s |-> h, act |-> c.act, args |-> c.args, allow |-> allow, exc |-> TRUE, h |-> ""])
           /\ UNCHANGED <<heap, next, sobj, oobj, want>>
      ELSE /\ WriteSucc(h, n, r.st, LAMBDA own : own)
           /\ hist' = Append(hist, [c |-> "Apply", s |-> h, act |-> c.act, args |-> c.args, allow |-> allow, exc |-> FALSE, h |-> n])
           /\ UNCHANGED oobj

NewOp(c) ==
  /\ oobj' = (OH(NOps + 1) :> [call |-> c, scratch |-> next]) @@ oobj
  /\ heap' = (next :> <<0, 1>>) @@ heap
  /\ next' = next + 1
  /\ hist' = Append(hist, [c |-> "NewOp", act |-> c.act, args |-> c.args, op |-> OH(NOps + 1)])
  /\ UNCHANGED <<sobj, want>>

ApplyOp(o, h, allow) ==
  LET c == oobj[o].call
      r == ApplyRes(c, Val(h), allow)
      n == SH(NStates)
  IN  IF r.exc
      THEN /\ hist' = Append(hist, [c |-> "ApplyOp", op |-> o, s |-> h, allow |-> allow, exc |-> TRUE, h |-> ""])
           /\ UNCHANGED <<heap, next, sobj, oobj, want>>
      ELSE /\ WriteSucc(h, n, r.st, LAMBDA own : IF Mode = "aliasOp" THEN oobj[o].scratch ELSE own)
           /\ hist' = Append(hist, [c |-> "ApplyOp", op |-> o, s |-> h, allow |-> allow, exc |-> FALSE, h |-> n])
           /\ UNCHANGED oobj

\* a State object changed in place through its public containers: by contract the handle denotes the
\* edited value from then on - and no other handle may notice
Atoms == {<<pr, <<o>>>> : pr \in Preds, o \in Objs}
Edit(h, f) ==
  LET cell == sobj[h].grp[f[1]]
      add == f \notin heap[cell]
  IN  /\ heap' = [heap EXCEPT ![cell] = IF add THEN @ \cup {f} ELSE @ \ {f}]
      /\ want' = [want EXCEPT ![h] = [@ EXCEPT !.facts = IF add THEN @ \cup {f} ELSE @ \ {f}]]
      /\ hist' = Append(hist, [c |-> "Edit", s |-> h, how |-> (IF add THEN "add" ELSE "remove"), fact |-> f])
      /\ UNCHANGED <<next, sobj, oobj>>

Eq(a, b) ==
  /\ hist' = Append(hist, [c |-> "Eq", a |-> a, b |-> b, val |-> (Val(a) = Val(b)), exp |-> (want[a] = want[b])])
  /\ UNCHANGED <<heap, next, sobj, oobj, want>>

Next ==
  /\ Len(hist) <= MaxLen
  /\ \/ \E h \in DOMAIN sobj : Copy(h)
     \/ \E h \in DOMAIN sobj, c \in Calls, al \in BOOLEAN : Apply(h, c, al)
     \/ \E c \in Calls : NewOp(c)
     \/ \E o \in DOMAIN oobj, h \in DOMAIN sobj, al \in BOOLEAN : ApplyOp(o, h, al)
     \/ \E a, b \in DOMAIN sobj : Eq(a, b)
     \/ \E h \in DOMAIN sobj, f \in Atoms : Edit(h, f)
Spec == Init /\ [][Next]_vars

----------------------------------------------------------------------------
\* every handle ever returned denotes the value the semantics dictates, for ever
Faithful == \A h \in DOMAIN sobj : Val(h) = want[h]
\* == is an equivalence that agrees with the values
EqSound == \A i \in DOMAIN hist : hist[i].c = "Eq" => (hist[i].val <=> hist[i].exp)
\* containers are never shared between two state handles (the design rule that makes Faithful hold)
NoSharing == \A a, b \in DOMAIN sobj : a # b =>
  {sobj[a].grp["p"], sobj[a].grp["q"], sobj[a].g} \cap {sobj[b].grp["p"], sobj[b].grp["q"], sobj[b].g} = {}

\* generator: the domain with every initial state, one line per complete history
Emit ==
  /\ (Len(hist) = 1) => PrintT(<<"HEADER", ToJson([dom |-> DomTree])>>)
  /\ (Len(hist) = MaxLen + 1) => PrintT(<<"HIST", ToJson(hist)>>)
=============================================================================
