------------------------------ MODULE TraceApi -------------------------------
(***************************************************************************)
(* Hists validation: recorded executions of the real library, checked      *)
(* event by event against PddlApi.                                         *)
(*                                                                         *)
(* The trace file (ndjson, IOEnv.TRACE_FILE) holds one *history* per line: *)
(* [id, ev : Seq(event)].  Each event is one public call at its            *)
(* linearization point (the call's return or raise) with its arguments and *)
(* the projected result.  The verdict of a history is total: the first     *)
(* event the specification does not admit ends the history with            *)
(* fail = <name of the violated clause>; an event admitted only under a    *)
(* named deviation that is listed in KnownDevs adds that name to `known'.  *)
(* One VERDICT line is printed per history; thousands of histories are     *)
(* validated per JVM.                                                      *)
(***************************************************************************)
EXTENDS PddlApi, Json, IOUtils

CONSTANT KnownDevs      \* names of the deviations recorded in known_findings.json
ExplainOn == "EXPLAIN" \in DOMAIN IOEnv

Hists == ndJsonDeserialize(IOEnv.TRACE_FILE)

VARIABLES t,        \* index of the current history
          l,        \* index of the next event in it
          store,    \* handle -> value  (the abstract state of PddlApi)
          verdict   \* [fail : clause name or "", known : set of deviation names]

tvars == <<t, l, store, verdict>>

NoVerdict == [fail |-> "", known |-> {}]
Empty == [x \in {} |-> 0]

Put(s, h, v) == (h :> v) @@ s
Has(e, k) == k \in DOMAIN e

----------------------------------------------------------------------------
(* JSON -> spec values *)

StOfJson(j) ==
  [facts |-> {<<x[1], x[2]>> : x \in Range(j.facts)},
   fl    |-> [g \in {<<x[1], x[2]>> : x \in Range(j.fl)} |->
                 (CHOOSE x \in Range(j.fl) : <<x[1], x[2]>> = g)[3]],
   \* exact values (canonical text of the double) for the preservation properties
   ex    |-> [g \in {<<x[1], x[2]>> : x \in Range(j.fl)} |->
                 LET x == CHOOSE y \in Range(j.fl) : <<y[1], y[2]>> = g
                 IN  IF Len(x) >= 4 THEN x[4] ELSE "?"]]

\* the same value, bit for bit: copies, snapshots, chained states, text round trips
HasEx(s) == "ex" \in DOMAIN s
ExactEq(a, b) == StEq(a, b) /\ ((HasEx(a) /\ HasEx(b)) => ExSame(a.ex, b.ex))

\* the serialized text must not list a fluent twice or contain unreadable items
StJsonClean(j) ==
  /\ ~Has(j, "bad")
  /\ \A x, y \in Range(j.fl) : (x[1] = y[1] /\ x[2] = y[2]) => x[3] = y[3]

\* Known deviation "RepeatedFluentArg": a fluent whose argument list repeats an
\* object loses the repetition when it goes through grounding or the trajectory
\* parser ((h o5 o5) comes back as (h o5)).  Dedup keeps first occurrences.
CollapseFl(s) ==
  [facts |-> s.facts,
   fl |-> [g \in {<<k[1], DedupArgs(k[2])>> : k \in DOMAIN s.fl} |->
             s.fl[CHOOSE k \in DOMAIN s.fl : <<k[1], DedupArgs(k[2])>> = g]]]
HasRepeat(s) == \E g \in DOMAIN s.fl : DedupArgs(g[2]) # g[2]
StEqD(a, b, dv) == IF "RepeatedFluentArg" \in dv THEN StEq(a, CollapseFl(b)) ELSE StEq(a, b)

ObsOf(e) == IF Has(e.out, "exc") THEN [exc |-> TRUE] ELSE [exc |-> FALSE]

----------------------------------------------------------------------------
(* One judged step: result [v : verdict clause ("" = admitted), k : set of  *)
(* deviation names used, s : new store]                                    *)

Ok(s)        == [v |-> "", k |-> {}, s |-> s]
Fail(c, s)   == [v |-> c, k |-> {}, s |-> s]
Known(d, s)  == [v |-> "", k |-> {d}, s |-> s]

\* try the specification proper, then each known deviation on its own
WithDevs(admits(_), clause, s) ==
  IF admits({}) THEN Ok(s)
  ELSE IF \E d \in KnownDevs : admits({d})
       THEN Known(CHOOSE d \in KnownDevs : admits({d}), s)
       ELSE Fail(clause, s)

JParseDomain(e, st) ==
  LET D   == DomainOfTree(e.tree)
      exp == ParseDomain_Exp(e.tree)
      obs == IF Has(e.out, "exc") THEN [exc |-> TRUE]
             ELSE [exc |-> FALSE, val |-> VocabOfJson(e.out.vocab)]
      s2  == IF obs.exc THEN st
             ELSE Put(st, e.h, [kind |-> "domain", D |-> D, digest |-> e.out.digest])
  IN  IF Admits(exp, obs) /\ (obs.exc \/ e.out.vocab.keys_ok) THEN Ok(s2)
      ELSE Fail(IF obs.exc THEN "ParseDomain:rejected-supported-text" ELSE "ParseDomain:vocabulary", s2)

JObjects(e, st) ==
  Ok(Put(st, e.h, [kind |-> "universe", u |-> UniverseOf(st[e.d].D, e.objs)]))

JNewState(e, st) ==
  LET want == StOfJson(e.st)
      s2   == Put(st, e.h, [kind |-> "state", st |-> StOfJson(e.out.st), hdr |-> e.out.st.hdr])
  IN  IF ~Has(e.out, "st") THEN Fail("NewState:exception", st)
      ELSE IF StJsonClean(e.out.st) /\ StEq(want, StOfJson(e.out.st)) THEN Ok(s2)
      ELSE Fail("NewState:serialize", s2)

JIsApplicable(e, st) ==
  LET obs == IF Has(e.out, "exc") THEN [exc |-> TRUE] ELSE [exc |-> FALSE, val |-> e.out.val]
      adm(dv) == Admits(IsApplicable_Exp(st[e.d].D, st[e.u].u, e.act, e.args, st[e.s].st, dv), obs)
  IN  WithDevs(adm, "IsApplicable", st)

JApply(e, st) ==
  LET isExc == Has(e.out, "exc")
      clean == isExc \/ StJsonClean(e.out.st)
      obs == IF isExc THEN [exc |-> TRUE] ELSE [exc |-> FALSE, val |-> StOfJson(e.out.st)]
      adm(dv) == AdmitsState(Apply_Exp(st[e.d].D, st[e.u].u, e.act, e.args, st[e.s].st, e.allow, e.skip, dv), obs)
      s2  == IF isExc THEN st ELSE Put(st, e.h, [kind |-> "state", st |-> obs.val, hdr |-> e.out.st.hdr])
  IN  IF ~clean THEN Fail("Apply:unreadable-state-text", st)
      ELSE IF ~isExc /\ e.out.st.hdr # ":state" THEN Fail("Apply:header", s2)
      ELSE WithDevs(adm, IF isExc THEN "Apply:refused" ELSE "Apply:successor", s2)

\* batched forms: one event carries a table of calls on one action (used when a
\* whole truth / successor table over a small universe is replayed)
AppRowOk(e, r, st, dv) ==
  Admits(IsApplicable_Exp(st[e.d].D, st[e.u].u, e.act, r.args, st[r.s].st, dv),
         IF Has(r.out, "exc") THEN [exc |-> TRUE] ELSE [exc |-> FALSE, val |-> r.out.val])

JAppTable(e, st) ==
  LET adm(dv) == \A i \in DOMAIN e.rows : AppRowOk(e, e.rows[i], st, dv)
  IN  WithDevs(adm, "IsApplicable", st)

ApplyRowOk(e, r, st, dv) ==
  /\ (Has(r.out, "exc") \/ (StJsonClean(r.out.st) /\ r.out.st.hdr = ":state"))
  /\ AdmitsState(Apply_Exp(st[e.d].D, st[e.u].u, e.act, r.args, st[r.s].st, r.allow, r.skip, dv),
                 IF Has(r.out, "exc") THEN [exc |-> TRUE] ELSE [exc |-> FALSE, val |-> StOfJson(r.out.st)])

JApplyTable(e, st) ==
  LET adm(dv) == \A i \in DOMAIN e.rows : ApplyRowOk(e, e.rows[i], st, dv)
  IN  WithDevs(adm, "Apply:successor", st)

JParseProblem(e, st) ==
  LET D == st[e.d].D
      isExc == Has(e.out, "exc")
      j == e.out.prob
      obsProj == [name |-> j.name, objs |-> Range(j.objs),
                  facts |-> StOfJson(j.init).facts, fl |-> StOfJson(j.init).fl, ex |-> StOfJson(j.init).ex,
                  glits |-> {<<x[1], x[2]>> : x \in Range(j.goal_lits)},
                  gcmps |-> {FormulaOfTree(x) : x \in Range(j.goal_cmps)}]
      adm(dv) == LET exp == ParseProblem_Exp(D, e.tree, dv)
                 IN  IF exp.open THEN TRUE
                     ELSE IF isExc THEN ~exp.accept
                     ELSE exp.accept /\ StJsonClean(j.init)
                          /\ ProjEq(exp.proj, IF exp.goalsFixed THEN obsProj ELSE [obsProj EXCEPT !.gcmps = exp.proj.gcmps])
      P0 == ProblemOfTree(e.tree)
      \* where the text leaves the initial value of a fluent open, later events
      \* are judged against what was observed
      P == IF P0.init.conflict /\ ~isExc
           THEN [P0 EXCEPT !.init = [facts |-> obsProj.facts, fl |-> obsProj.fl, ex |-> obsProj.ex, shapeOk |-> TRUE, conflict |-> TRUE]]
           ELSE P0
      s2 == IF isExc THEN st
            ELSE Put(st, e.h, [kind |-> "problem", P |-> P, u |-> UniverseOf(D, P.objs)])
  IN  WithDevs(adm, IF isExc THEN "ParseProblem:rejected-well-formed" ELSE
                    (IF ParseProblem_Exp(D, e.tree, {}).accept THEN "ParseProblem:content" ELSE "ParseProblem:accepted-ill-formed"), s2)

\* the initial state of a parsed problem, built the way the exporters build it
JInitialState(e, st) ==
  LET want == st[e.p].P.init
      s2 == Put(st, e.h, [kind |-> "state", st |-> StOfJson(e.out.st), hdr |-> ":init"])
  IN  IF ~Has(e.out, "st") THEN Fail("InitialState:exception", st)
      ELSE IF StJsonClean(e.out.st) /\ ExactEq([facts |-> want.facts, fl |-> want.fl, ex |-> want.ex], StOfJson(e.out.st)) /\ e.out.st.hdr = ":init"
           THEN Ok(s2) ELSE Fail("InitialState:content", s2)

JTypeMatrix(e, st) ==
  LET D == st[e.d].D
      names == TypeNamesOf(D) \cup {"object"}
  IN  IF /\ {<<r[1], r[2]>> : r \in Range(e.rows)} = names \X names
         /\ \A i \in DOMAIN e.rows : e.rows[i][3] = SubTypeOf(D, e.rows[i][1], e.rows[i][2])
      THEN Ok(st) ELSE Fail("TypeMatrix", st)

JTypeGraph(e, st) ==
  LET D == st[e.d].D
  IN  IF /\ {<<x[1], x[2]>> : x \in Range(e.edges)} = TypeEdges(D)
         /\ Range(e.nodes) = TypeNamesOf(D) \cup {"object"}
      THEN Ok(st) ELSE Fail("TypeGraph", st)

----------------------------------------------------------------------------
(* plans, trajectories *)

CallOfJson(j) == [act |-> j[1], args |-> j[2]]
StepOfJson(j) == [pre |-> StOfJson(j.pre), post |-> StOfJson(j.post), op |-> CallOfJson(j.op),
                  preHdr |-> j.pre.hdr, postHdr |-> j.post.hdr]

JRunPlan(e, st) ==
  LET D == st[e.d].D
      isExc == Has(e.out, "exc")
      plan == [i \in DOMAIN e.plan |-> CallOfJson(e.plan[i])]
      obs == [i \in DOMAIN e.out.steps |-> StepOfJson(e.out.steps[i])]
      clean == \A i \in DOMAIN e.out.steps : StJsonClean(e.out.steps[i].pre) /\ StJsonClean(e.out.steps[i].post)
      init == [facts |-> st[e.p].P.init.facts, fl |-> st[e.p].P.init.fl]
      adm(dv) == LET exp == RunPlan_Exp(D, st[e.p].u, plan, init, e.allow, dv)
                 IN  IF isExc THEN exp.open /\ exp.steps = <<>> ELSE clean /\ RunAdmits(exp, obs, Len(plan))
      s2 == IF isExc THEN st ELSE Put(st, e.h, [kind |-> "run", steps |-> obs, d |-> e.d, p |-> e.p])
  IN  WithDevs(adm, IF isExc THEN "RunPlan:exception" ELSE "RunPlan:trajectory", s2)

\* exported trajectory text: ( state (operator: call) state ... )
TrajOfTree(x) ==
  LET n == (Len(x.c) - 1) \div 2 IN
  [ok |-> IsList(x) /\ Len(x.c) % 2 = 1 /\ \A i \in 1..n : HeadSym(x.c[2 * i]) = "operator:" /\ Len(x.c[2 * i].c) = 2 /\ IsList(x.c[2 * i].c[2]),
   first |-> StateOfTree(x.c[1]),
   steps |-> [i \in 1..n |-> [op |-> [act |-> HeadSym(x.c[2 * i].c[2]), args |-> SymVals(Rest(x.c[2 * i].c[2]))],
                               post |-> StateOfTree(x.c[2 * i + 1])]]]

StOfParsed(ps) == [facts |-> ps.st.facts, fl |-> ps.st.fl, ex |-> ps.st.ex]

JExportTrajectory(e, st) ==
  LET run == st[e.r].steps
      T == TrajOfTree(e.out.tree)
  IN  IF Has(e.out, "exc") THEN (IF run = <<>> THEN Ok(st) ELSE Fail("ExportTrajectory:exception", st))
      ELSE IF /\ T.ok /\ Len(T.steps) = Len(run) /\ Len(run) > 0
              /\ T.first.st.shapeOk /\ ~T.first.st.conflict
              /\ T.first.hdr = run[1].preHdr /\ ExactEq(StOfParsed(T.first), run[1].pre)
              /\ \A i \in DOMAIN run :
                    /\ T.steps[i].op = run[i].op
                    /\ T.steps[i].post.st.shapeOk /\ ~T.steps[i].post.st.conflict
                    /\ T.steps[i].post.hdr = ":state"
                    /\ ExactEq(StOfParsed(T.steps[i].post), run[i].post)
           THEN Ok(st) ELSE Fail("ExportTrajectory:text", st)

\* the observation parsed back from the exported text: same calls, same states, a chain
JParseTrajectory(e, st) ==
  LET run == st[e.r].steps
      comps == [i \in DOMAIN e.out.comps |-> [pre |-> StOfJson(e.out.comps[i].pre), post |-> StOfJson(e.out.comps[i].post),
                                              op |-> CallOfJson(e.out.comps[i].op)]]
      adm(dv) ==
        /\ ~Has(e.out, "exc")
        /\ Len(comps) = Len(run)
        /\ \A i \in DOMAIN run :
              /\ StJsonClean(e.out.comps[i].pre) /\ StJsonClean(e.out.comps[i].post)
              /\ comps[i].op = run[i].op
              /\ StEqD(comps[i].pre, run[i].pre, dv) /\ StEqD(comps[i].post, run[i].post, dv)
              \* the deviation only excuses states that really hold a fluent with a repeated argument
              /\ (~("RepeatedFluentArg" \in dv /\ (HasRepeat(run[i].pre) \/ HasRepeat(run[i].post)))
                    => ExactEq(comps[i].pre, run[i].pre) /\ ExactEq(comps[i].post, run[i].post))
        /\ \A i \in 1..(Len(comps) - 1) : ExactEq(comps[i + 1].pre, comps[i].post)
  IN  WithDevs(adm, "ParseTrajectory", st)

----------------------------------------------------------------------------
(* multi-agent (C15, C16) *)

MembersOfJson(j) == [i \in DOMAIN j |-> CallOfJson(j[i])]

JApplyJoint(e, st) ==
  LET isExc == Has(e.out, "exc")
      clean == isExc \/ StJsonClean(e.out.st)
      members == MembersOfJson(e.members)
      obsSt == StOfJson(e.out.st)
      adm(dv) == LET x == JointExp(st[e.d].D, st[e.u].u, members, st[e.s].st, e.allow, Eps, dv)
                 IN  CASE x.kind = "any" -> TRUE
                       [] x.kind = "err" -> isExc
                       [] x.kind = "st"  -> ~isExc /\ StEq(x.st, obsSt) /\ e.out.st.hdr = ":state"
      s2 == IF isExc THEN st ELSE Put(st, e.h, [kind |-> "state", st |-> obsSt, hdr |-> e.out.st.hdr])
  IN  IF ~clean THEN Fail("ApplyJoint:unreadable-state-text", st)
      ELSE WithDevs(adm, IF isExc THEN "ApplyJoint:refused" ELSE "ApplyJoint:successor", s2)

\* a joint plan executed by the multi-agent exporter: one step per joint action, chained
JointStepOfJson(j) == [pre |-> StOfJson(j.pre), post |-> StOfJson(j.post), op |-> MembersOfJson(j.op),
                       preHdr |-> j.pre.hdr, postHdr |-> j.post.hdr]

RECURSIVE JointRunOk(_, _, _, _, _, _, _)
\* every judged step: pre-state chained, post = the joint successor when it is determined
JointRunOk(D, u, obs, i, cur, allow, dv) ==
  IF i > Len(obs) THEN TRUE
  ELSE LET x == JointExp(D, u, obs[i].op, cur, allow, Eps, dv) IN
       /\ StEq(obs[i].pre, cur)
       /\ obs[i].preHdr = (IF i = 1 THEN ":init" ELSE ":state") /\ obs[i].postHdr = ":state"
       /\ x.kind # "err"
       /\ (x.kind = "st" => StEq(obs[i].post, x.st))
       /\ JointRunOk(D, u, obs, i + 1, [facts |-> obs[i].post.facts, fl |-> obs[i].post.fl], allow, dv)

\* does the plan contain a step the specification says must be refused?
RECURSIVE FirstRefused(_, _, _, _, _, _)
FirstRefused(D, u, plan, i, cur, dv) ==
  IF i > Len(plan) THEN FALSE
  ELSE LET x == JointExp(D, u, plan[i], cur, FALSE, Eps, dv) IN
       IF x.kind = "err" THEN TRUE
       ELSE IF x.kind = "st" THEN FirstRefused(D, u, plan, i + 1, x.st, dv)
       ELSE TRUE      \* an undetermined step: what follows cannot be judged, an exception is admitted

JRunJointPlan(e, st) ==
  LET D == st[e.d].D
      isExc == Has(e.out, "exc")
      init == [facts |-> st[e.p].P.init.facts, fl |-> st[e.p].P.init.fl]
      plan == [i \in DOMAIN e.plan |-> MembersOfJson(e.plan[i])]
      obs == [i \in DOMAIN e.out.steps |-> JointStepOfJson(e.out.steps[i])]
      adm(dv) == IF isExc THEN (e.allow \/ FirstRefused(D, st[e.p].u, plan, 1, init, dv))
                 ELSE /\ Len(obs) = Len(plan)
                      /\ \A i \in DOMAIN obs : obs[i].op = plan[i]
                      /\ JointRunOk(D, st[e.p].u, obs, 1, init, e.allow, dv)
      s2 == IF isExc THEN st ELSE Put(st, e.h, [kind |-> "jrun", steps |-> obs])
  IN  WithDevs(adm, IF isExc THEN "RunJointPlan:exception" ELSE "RunJointPlan:trajectory", s2)

\* exported joint trajectory: ( state (operators: call call ...) state ... )
JointTrajOfTree(x) ==
  LET n == (Len(x.c) - 1) \div 2 IN
  [ok |-> IsList(x) /\ Len(x.c) % 2 = 1 /\ \A i \in 1..n : HeadSym(x.c[2 * i]) = "operators:",
   first |-> StateOfTree(x.c[1]),
   steps |-> [i \in 1..n |-> [op |-> [j \in 1..(Len(x.c[2 * i].c) - 1) |->
                                          [act |-> HeadSym(x.c[2 * i].c[j + 1]), args |-> SymVals(Rest(x.c[2 * i].c[j + 1]))]],
                               post |-> StateOfTree(x.c[2 * i + 1])]]]

JExportJointTrajectory(e, st) ==
  LET run == st[e.r].steps
      T == JointTrajOfTree(e.out.tree)
  IN  IF Has(e.out, "exc") THEN Fail("ExportJointTrajectory:exception", st)
      ELSE IF /\ T.ok /\ Len(T.steps) = Len(run) /\ Len(run) > 0
              /\ T.first.st.shapeOk /\ ExactEq(StOfParsed(T.first), run[1].pre) /\ T.first.hdr = run[1].preHdr
              /\ \A i \in DOMAIN run :
                    /\ T.steps[i].op = run[i].op
                    /\ T.steps[i].post.st.shapeOk /\ T.steps[i].post.hdr = ":state"
                    /\ ExactEq(StOfParsed(T.steps[i].post), run[i].post)
           THEN Ok(st) ELSE Fail("ExportJointTrajectory:text", st)

JParseJointTrajectory(e, st) ==
  LET run == st[e.r].steps
      comps == [i \in DOMAIN e.out.comps |-> [pre |-> StOfJson(e.out.comps[i].pre), post |-> StOfJson(e.out.comps[i].post),
                                              op |-> MembersOfJson(e.out.comps[i].op)]]
  IN  IF Has(e.out, "exc") THEN Fail("ParseJointTrajectory:exception", st)
      ELSE IF /\ Len(comps) = Len(run)
              /\ \A i \in DOMAIN run : comps[i].op = run[i].op /\ ExactEq(comps[i].pre, run[i].pre) /\ ExactEq(comps[i].post, run[i].post)
              /\ \A i \in 1..(Len(comps) - 1) : ExactEq(comps[i + 1].pre, comps[i].post)
           THEN Ok(st) ELSE Fail("ParseJointTrajectory", st)

\* C15: any conversion satisfying the five clauses is accepted
JConvertPlan(e, st) ==
  LET D == st[e.d].D
      u == st[e.p].u
      init == [facts |-> st[e.p].P.init.facts, fl |-> st[e.p].P.init.fl]
      seqPlan == MembersOfJson(e.plan)
      agents == e.agents
      joint == [i \in DOMAIN e.out.joint |-> MembersOfJson(e.out.joint[i])]
      adm(dv) == IF ~SeqRun(D, u, seqPlan, init, Eps, dv).ok THEN TRUE        \* not a valid sequential plan: outside C15
                 ELSE IF Has(e.out, "exc")
                      THEN \/ "ConvertNonCommuting" \in dv /\ NonCommutingWindow(D, u, seqPlan, agents, init, Eps, {}, FALSE)
                           \/ "ConvertForallUnseen" \in dv /\ NonCommutingWindow(D, u, seqPlan, agents, init, Eps, {}, TRUE)
                      ELSE /\ ValidConversion(D, u, seqPlan, joint, agents, init, Eps, dv)
                           /\ (Has(e.out, "file") => e.out.file = e.out.joint)      \* export_plan writes that joint plan
  IN  WithDevs(adm, IF Has(e.out, "exc") THEN "ConvertPlan:exception" ELSE "ConvertPlan:invalid-conversion", st)

----------------------------------------------------------------------------
(* exporters (C08, C09): the exported text is read by the independent reader *)
(* and then by the specification itself; it must denote the same vocabulary  *)
(* and the same behaviour / the same problem as the source.                  *)

NamesOf(D, u) == DOMAIN u.objs \cup {D.consts[i][1] : i \in DOMAIN D.consts}
TypeOfArg(D, u, n) == IF n \in DOMAIN u.objs THEN u.objs[n] ELSE TypeOfName(D, u.objs, n)
CallsOf(D, u, a) ==
  {args \in [DOMAIN a.params -> NamesOf(D, u)] :
      \A i \in DOMAIN a.params : SubType(u.parent, TypeOfArg(D, u, args[i]), a.params[i][2])}

\* calls: <<>> = every type-correct call over the universe; otherwise the listed
\* [act, args] pairs (large fixture universes)
SameBehaviour(D, D2, u, states, calls) ==
  \A i \in DOMAIN D.actions :
    LET a == D.actions[i] IN
    /\ HasAction(D2, a.name)
    /\ LET a2 == ActionNamed(D2, a.name) IN
       /\ a2.params = a.params
       /\ \A args \in (IF calls = <<>> THEN CallsOf(D, u, a)
                        ELSE {c[2] : c \in {x \in Range(calls) : x[1] = a.name /\ Len(x[2]) = Len(a.params)}}) : \A s \in states :
             LET env == EnvOfCall(a, args)
                 r1 == Succ(a.eff, env, s, u, Eps, {})
                 r2 == Succ(a2.eff, env, s, u, Eps, {})
             IN  /\ Holds3(a.pre, env, s, u, Eps, {}) = Holds3(a2.pre, env, s, u, Eps, {})
                 /\ r1.ok = r2.ok
                 /\ (r1.ok => StEq(r1.st, r2.st))

\* diagnostics: the (action, arguments, state handle) triples on which two domains differ
BehaviourDiffs(D, D2, u, st, handles, calls) ==
  UNION {UNION {
    {<<a.name, args, h, Holds3(a.pre, EnvOfCall(a, args), st[h].st, u, Eps, {}),
       Holds3(ActionNamed(D2, a.name).pre, EnvOfCall(a, args), st[h].st, u, Eps, {}),
       Succ(a.eff, EnvOfCall(a, args), st[h].st, u, Eps, {}),
       Succ(ActionNamed(D2, a.name).eff, EnvOfCall(a, args), st[h].st, u, Eps, {})>> :
       h \in {hh \in handles :
               LET a2 == ActionNamed(D2, a.name)
                   env == EnvOfCall(a, args)
                   r1 == Succ(a.eff, env, st[hh].st, u, Eps, {})
                   r2 == Succ(a2.eff, env, st[hh].st, u, Eps, {})
               IN  ~(/\ Holds3(a.pre, env, st[hh].st, u, Eps, {}) = Holds3(a2.pre, env, st[hh].st, u, Eps, {})
                     /\ r1.ok = r2.ok
                     /\ (r1.ok => StEq(r1.st, r2.st)))}} :
    args \in (IF calls = <<>> THEN CallsOf(D, u, a)
              ELSE {c[2] : c \in {x \in Range(calls) : x[1] = a.name /\ Len(x[2]) = Len(a.params)}})} :
    a \in {D.actions[i] : i \in {j \in DOMAIN D.actions : HasAction(D2, D.actions[j].name)}}}

VocabSame(v1, v2) ==
  /\ v1.name = v2.name /\ v1.types = v2.types /\ v1.consts = v2.consts
  /\ v1.preds = v2.preds /\ v1.funcs = v2.funcs /\ v1.actions = v2.actions

JExportDomain(e, st) ==
  IF Has(e.out, "exc") THEN Fail("ExportDomain:" \o e.out.exc, st)
  ELSE LET D == st[e.d].D
           D2 == DomainOfTree(e.out.tree)
           s2 == Put(st, e.h, [kind |-> "domain", D |-> D2, digest |-> e.out.digest2])
           states == {st[h].st : h \in Range(e.states)}
       IN  IF ~VocabSame(VocabOf(D2), VocabOf(D)) THEN Fail("ExportDomain:text-vocabulary", s2)
           ELSE IF Has(e.out, "exc2") THEN Fail("ExportDomain:reparse-rejected", s2)
           ELSE IF ~VocabSame(VocabOfJson(e.out.vocab2), VocabOf(D)) THEN Fail("ExportDomain:reparsed-vocabulary", s2)
           ELSE IF ~SameBehaviour(D, D2, st[e.u].u, states, IF Has(e, "calls") THEN e.calls ELSE <<>>)
                THEN Fail("ExportDomain:text-behaviour", s2)
           ELSE Ok(s2)

JExportProblem(e, st) ==
  IF Has(e.out, "exc") THEN Fail("ExportProblem:" \o e.out.exc, st)
  ELSE LET P == st[e.p].P
           P2 == ProblemOfTree(e.out.tree)
           same(a, b) == ProjEq(ProblemProj(a), ProblemProj(b)) /\ a.domain = b.domain
       IN  IF ~(P2.ok /\ P2.init.shapeOk /\ ~P2.init.conflict /\ same(P, P2)) THEN Fail("ExportProblem:text", st)
           ELSE IF Has(e.out, "exc2") THEN Fail("ExportProblem:reparse-rejected", st)
           ELSE Ok(st)

----------------------------------------------------------------------------
(* Printing numeric expressions (C12): every numeric condition / effect of  *)
(* an action printed with a number of decimals and read back must have the  *)
(* source's structure and, up to half a unit of the last printed decimal,   *)
(* its constants.  Constants are compared in ticks of 10^-5.                *)

Pow10(n) == CASE n = 0 -> 1 [] n = 1 -> 10 [] n = 2 -> 100 [] n = 3 -> 1000 [] n = 4 -> 10000 [] OTHER -> 100000
Ticks(v) == v[1] * (100000 \div v[2])
OnTickGrid(v) == v[2] # 0 /\ 100000 % v[2] = 0 /\ Abs(v[1]) <= 2000000000 \div (100000 \div v[2])
NumClose(v1, v2, digits) ==
  IF v1 = v2 THEN TRUE
  ELSE IF ~OnTickGrid(v1) \/ ~OnTickGrid(v2) THEN FALSE
  ELSE IF digits >= 5 THEN Ticks(v1) = Ticks(v2)
  ELSE 2 * Abs(Ticks(v1) - Ticks(v2)) <= Pow10(5 - digits)

\* a printed value o (digits decimals) against a state value s that need not lie on the tick
\* grid (35.0390625 = 4485/128 printed as 35.0391): |o - s| <= half a unit of the last decimal,
\* computed by cross multiplication when that stays inside 32 bits, admitted otherwise
PrintClose(o, s, digits) ==
  IF o = s THEN TRUE
  ELSE IF OnTickGrid(o) /\ OnTickGrid(s) THEN NumClose(o, s, digits)
  ELSE IF s[2] = 0 \/ o[2] = 0 THEN TRUE
  ELSE IF Abs(o[1]) > 2000000000 \div s[2] \/ Abs(s[1]) > 2000000000 \div o[2] \/ o[2] > 2000000000 \div s[2] THEN TRUE
  ELSE LET num == Abs(o[1] * s[2] - s[1] * o[2])
           den == o[2] * s[2]
       IN  IF num > 2000000000 \div (2 * Pow10(digits)) THEN FALSE ELSE 2 * Pow10(digits) * num <= den

RECURSIVE ExprClose(_, _, _)
ExprClose(a, b, digits) ==
  /\ a.k = b.k
  /\ CASE a.k = "num" -> NumClose(a.v, b.v, digits)
        [] a.k = "fl"  -> a.f = b.f /\ a.a = b.a
        [] a.k = "bin" -> a.op = b.op /\ ExprClose(a.l, b.l, digits) /\ ExprClose(a.r, b.r, digits)
        [] OTHER -> a = b

CmpClose(a, b, digits) == a.k = "cmp" /\ b.k = "cmp" /\ a.op = b.op /\ ExprClose(a.l, b.l, digits) /\ ExprClose(a.r, b.r, digits)
UpdClose(a, b, digits) == a.k = "upd" /\ b.k = "upd" /\ a.op = b.op /\ a.f = b.f /\ a.a = b.a /\ ExprClose(a.e, b.e, digits)

\* a one-to-one correspondence between source and printed items (sequences)
Matches(src, obs, close(_, _)) ==
  /\ Len(src) = Len(obs)
  /\ \E p \in Permutations(DOMAIN src) : \A i \in DOMAIN src : close(src[i], obs[p[i]])

JPrintExpr(e, st) ==
  LET D == st[e.d].D
      a == ActionNamed(D, e.act)
      srcC == SetToSeq(CmpsOfF(a.pre))
      srcU == SelectSeq(a.eff, LAMBDA x : x.k = "upd")
      obsC == [i \in DOMAIN e.out.pre |-> FormulaOfTree(e.out.pre[i])]
      obsU == [i \in DOMAIN e.out.eff |-> SimpleEffOfTree(e.out.eff[i])]
      cc(x, y) == CmpClose(x, y, e.digits)
      uu(x, y) == UpdClose(x, y, e.digits)
  IN  IF Has(e.out, "exc") THEN Fail("PrintExpr:exception", st)
      ELSE IF ~e.out.reparse_ok THEN Fail("PrintExpr:library-cannot-reread", st)
      ELSE IF Matches(srcC, obsC, cc) /\ Matches(srcU, obsU, uu) THEN Ok(st)
      ELSE Fail("PrintExpr:structure-or-value", st)

----------------------------------------------------------------------------
(* Comparison probes at magnitudes beyond 31-bit rationals (C12): the two    *)
(* sides are given as mixed numbers [i, t, d] = i + t/d.  Comparison with a  *)
(* tolerance is translation invariant, so both sides are shifted by the      *)
(* smaller integer part before Rat!CmpTolSet is applied.                     *)

JCmpProbe(e, st) ==
  LET x == e.x  y == e.y
      base == IF x[1] < y[1] THEN x[1] ELSE y[1]
      far == Abs(x[1] - y[1]) > 1000
      xs == Norm((x[1] - base) * x[3] + x[2], x[3])
      ys == Norm((y[1] - base) * y[3] + y[2], y[3])
      S == IF far THEN {CASE e.op \in {"<", "<="} -> x[1] < y[1] [] e.op \in {">", ">="} -> x[1] > y[1] [] OTHER -> FALSE}
           ELSE CmpTolSet(e.op, xs, ys, Eps)
  IN  IF Has(e.out, "exc") THEN Fail("CmpProbe:exception", st)
      ELSE IF e.out.val \in S THEN Ok(st) ELSE Fail("CmpProbe", st)

----------------------------------------------------------------------------
(* Simplified printing of numeric conditions (C13): the printed conditions   *)
(* use binary + - * / only and hold for the same valuations of the fluents   *)
(* as the source conditions - decided by exact evaluation on a grid of       *)
(* rational points.  A valuation at which a source or printed comparison is  *)
(* closer to its boundary than `slack' is not used (rounding of coefficients *)
(* at the requested decimals may move the boundary that much).               *)

RECURSIVE OnlyBinary(_)
OnlyBinary(e) ==
  CASE e.k \in {"num", "fl"} -> TRUE
    [] e.k = "bin" -> OnlyBinary(e.l) /\ OnlyBinary(e.r)
    [] OTHER -> FALSE

GridVals == {<<-2, 1>>, <<-1, 1>>, <<0, 1>>, <<1, 1>>, <<3, 1>>, <<1, 2>>, <<5, 2>>}
FluentTerms(cs) == UNION {FluentsOfExpr(c.l) \cup FluentsOfExpr(c.r) : c \in cs}

\* truth of one comparison at a valuation with a margin: "U" when undefined or too close
Margin3(c, st, slack) ==
  LET x == Eval(c.l, <<>>, st)  y == Eval(c.r, <<>>, st) IN
  IF ~x.ok \/ ~y.ok \/ TooBig(x.v) \/ TooBig(y.v) THEN "U"
  ELSE LET d == RSub(x.v, y.v) IN
       IF TooBig(d) THEN "U"
       ELSE IF ~RIsZero(slack) /\ RLe(RAbs(d), slack) THEN "U"
       ELSE B3(CmpTol(c.op, x.v, y.v, RZero))

Conj3(cs, st, slack) == AndSet({Margin3(c, st, slack) : c \in cs})

\* the fewer fluents, the finer the grid (a wrong coefficient moves a boundary only a little)
GridFor(n) ==
  CASE n <= 1 -> {Norm(i, 8) : i \in -48..48}
    [] n = 2  -> {Norm(i, 4) : i \in -12..12}
    [] n = 3  -> {<<-2, 1>>, <<-1, 1>>, <<-1, 2>>, <<0, 1>>, <<1, 2>>, <<1, 1>>, <<3, 2>>, <<5, 2>>, <<3, 1>>}
    [] OTHER  -> GridVals

CondEquiv(src, obs, slack) ==
  LET terms == FluentTerms(src \cup obs) IN
  \A v \in [terms -> GridFor(Cardinality(terms))] :
     LET st == [facts |-> {}, fl |-> v]
         a == Conj3(src, st, slack)  b == Conj3(obs, st, slack)
     IN  a = "U" \/ b = "U" \/ a = b

JSimplify(e, st) ==
  LET D == st[e.d].D
      a == ActionNamed(D, e.act)
      src == CmpsOfF(a.pre)
      \* Known deviation "ConstantConditionPrinted": when an equality fixes the value of a fluent,
      \* a condition over that fluent alone is printed as a comparison of two constants, e.g.
      \* (<= 4 7) - or, when the condition was not linear, with the word `none' for the side that
      \* lost its fluent: (> none 2.25) - which the library's own reader rejects (it is not
      \* omitted as implied).  Such a line has no meaning; the other lines are judged as usual.
      IsNoneTree(x) == x.t = "l" /\ Len(x.c) = 3 /\ \E i \in {2, 3} : x.c[i].t = "s" /\ x.c[i].v = "none"
      noneTrees == {x \in Range(e.out.trees) : IsNoneTree(x)}
      obs == {FormulaOfTree(x) : x \in Range(e.out.trees) \ noneTrees}
      slack == IF e.exact THEN RZero ELSE Norm(200, Pow10(IF e.digits > 5 THEN 5 ELSE e.digits))
      hasEq == \E c \in src : c.op = "="
      constPrinted == \E c \in obs : c.k = "cmp" /\ FluentsOfExpr(c.l) \cup FluentsOfExpr(c.r) = {}
      adm(dv) == \/ noneTrees = {} /\ e.out.reparse_ok
                 \/ "ConstantConditionPrinted" \in dv /\ hasEq /\ (constPrinted \/ noneTrees # {})
  IN  IF Has(e.out, "exc") THEN Fail("Simplify:exception:" \o e.out.exc, st)
      ELSE IF ~(\A c \in obs : c.k = "cmp" /\ OnlyBinary(c.l) /\ OnlyBinary(c.r)) THEN Fail("Simplify:not-binary-arithmetic", st)
      ELSE IF noneTrees = {} /\ Cardinality(FluentTerms(src \cup obs)) <= 4 /\ ~CondEquiv(src, obs, slack) THEN Fail("Simplify:not-equivalent", st)
      ELSE WithDevs(adm, "Simplify:library-cannot-reread", st)

----------------------------------------------------------------------------
(* Renaming (C18): the handle e.h is a second parse of the same text whose   *)
(* action e.act had its parameters renamed in place by the map e.map.        *)

JRename(e, st) ==
  LET D == st[e.d].D
      a == ActionNamed(D, e.act)
      m == e.map
      b == RenameAction(a, m)
      D2 == [D EXCEPT !.actions = [i \in DOMAIN D.actions |-> IF D.actions[i].name = e.act THEN b ELSE D.actions[i]]]
      s2 == Put(st, e.h, [kind |-> "domain", D |-> D2, digest |-> (IF Has(e.out, "digest") THEN e.out.digest ELSE "none")])
  IN  IF ~Injective(a, m) THEN Ok(s2)                      \* outside the property
      ELSE IF Has(e.out, "exc") THEN Fail("Rename:exception", st)
      ELSE IF [i \in DOMAIN e.out.sig |-> <<e.out.sig[i][1], e.out.sig[i][2]>>] = b.params THEN Ok(s2)
      ELSE Fail("Rename:signature", s2)

----------------------------------------------------------------------------
(* combining per-agent files (C17): the union, whatever the discovery order  *)

JCombineDomains(e, st) ==
  LET parts == [i \in DOMAIN e.parts |-> st[e.parts[i]].D]
      DU == UnionDomain(parts, e.dummy)
      s2 == Put(st, e.h, [kind |-> "domain", D |-> DU, digest |-> (IF Has(e.out, "digest") THEN e.out.digest ELSE "none")])
      names == {parts[i].name : i \in DOMAIN parts}
  IN  IF Has(e.out, "exc") THEN Fail("CombineDomains:exception", st)
      ELSE IF VocabSame([VocabOfJson(e.out.vocab) EXCEPT !.name = "x"], [VocabOf(DU) EXCEPT !.name = "x"])
              /\ e.out.vocab.name \in names /\ e.out.vocab.keys_ok
           THEN Ok(s2) ELSE Fail("CombineDomains:not-the-union", s2)

\* problems: union of objects, initial facts, fluent values and goals, no duplicates
JCombineProblems(e, st) ==
  LET ps == [i \in DOMAIN e.parts |-> st[e.parts[i]].P]
      j == e.out.prob
      want == [objs |-> UNION {Range(ps[i].objs) : i \in DOMAIN ps},
               facts |-> UNION {ps[i].init.facts : i \in DOMAIN ps},
               flKeys |-> UNION {DOMAIN ps[i].init.fl : i \in DOMAIN ps},
               glits |-> UNION {ps[i].goal.lits : i \in DOMAIN ps},
               gcmps |-> UNION {ps[i].goal.cmps : i \in DOMAIN ps}]
      got == StOfJson(j.init)
  IN  IF Has(e.out, "exc") THEN Fail("CombineProblems:exception", st)
      ELSE IF /\ Range(j.objs) = want.objs
              /\ got.facts = want.facts
              /\ DOMAIN got.fl = want.flKeys
              /\ \A g \in want.flKeys : \E i \in DOMAIN ps : g \in DOMAIN ps[i].init.fl /\ ps[i].init.fl[g] = got.fl[g]
              /\ {<<x[1], x[2]>> : x \in Range(j.goal_lits)} = want.glits
              /\ {FormulaOfTree(x) : x \in Range(j.goal_cmps)} = want.gcmps
           THEN (IF j.dups = 0 THEN Ok(st) ELSE Fail("CombineProblems:duplicates", st))
           ELSE Fail("CombineProblems:not-the-union", st)

----------------------------------------------------------------------------
(* further public surface: state queries, shallow copies of domains, editing *)
(* an action's precondition (the mutators learning algorithms use)           *)

ObjectsOfState(s) == UNION {Range(g[2]) : g \in s.facts} \cup UNION {Range(g[2]) : g \in DOMAIN s.fl}

JStateObjects(e, st) ==
  IF Has(e.out, "names") /\ Range(e.out.names) = ObjectsOfState(st[e.s].st) THEN Ok(st) ELSE Fail("StateObjects", st)

\* State.typed_serialize: the state with every argument annotated by a type.  The
\* annotation is the type under which the fact entered the state (the declared
\* parameter type of the symbol, or that of the action parameter whose effect
\* produced it), so every type between the object's own and the declared one is admitted.
JTypedSerialize(e, st) ==
  LET D == st[e.d].D
      u == st[e.u].u
      s == st[e.s].st
      par == ParentOf(D.typeDecl)
      decls == D.preds \o D.funcs
      okItem(it) ==
        LET want == ParamTypesOf(decls, it[1])
        IN  /\ Len(it[2]) = Len(want)
            /\ \A i \in DOMAIN it[2] :
                  /\ SubType(par, TypeOfArg(D, u, it[2][i][1]), it[2][i][2])
                  /\ SubType(par, it[2][i][2], want[i])
  IN  IF ~Has(e.out, "st") THEN Fail("TypedSerialize:shape", st)
      ELSE IF ~(StJsonClean(e.out.st) /\ ExactEq(s, StOfJson(e.out.st))) THEN Fail("TypedSerialize:content", st)
      ELSE IF \A i \in DOMAIN e.out.types : okItem(e.out.types[i]) THEN Ok(st)
      ELSE Fail("TypedSerialize:types", st)

\* one equality condition (= (f args) value) per fluent of the state, values up to the print precision
JFluentConditions(e, st) ==
  LET s == st[e.s].st
      obs == [i \in DOMAIN e.out.trees |-> FormulaOfTree(e.out.trees[i])]
      wellShaped == \A i \in DOMAIN obs : obs[i].k = "cmp" /\ obs[i].op = "=" /\ obs[i].l.k = "fl" /\ obs[i].r.k = "num"
  IN  IF Has(e.out, "exc") \/ ~wellShaped THEN Fail("FluentConditions:shape", st)
      ELSE IF /\ {<<obs[i].l.f, obs[i].l.a>> : i \in DOMAIN obs} = DOMAIN s.fl
              /\ Len(obs) = Cardinality(DOMAIN s.fl)
              /\ \A i \in DOMAIN obs : PrintClose(obs[i].r.v, s.fl[<<obs[i].l.f, obs[i].l.a>>], e.digits)
           THEN Ok(st) ELSE Fail("FluentConditions:content", st)

\* Domain.shallow_copy: the vocabulary and the action signatures, without the bodies
Bodyless(D) == [D EXCEPT !.actions = [i \in DOMAIN D.actions |-> [D.actions[i] EXCEPT !.pre = TrueF, !.eff = <<>>]]]
JShallowCopy(e, st) ==
  LET D == st[e.d].D
      s2 == Put(st, e.h, [kind |-> "domain", D |-> Bodyless(D), digest |-> (IF Has(e.out, "digest") THEN e.out.digest ELSE "none")])
  IN  IF Has(e.out, "exc") THEN Fail("ShallowCopy:exception", st)
      ELSE IF VocabSame(VocabOfJson(e.out.vocab), VocabOf(D)) /\ e.out.vocab.keys_ok THEN Ok(s2)
      ELSE Fail("ShallowCopy:vocabulary", s2)

\* in place by contract: the handle's action gets one more conjunct / loses one
LitF(j) == IF j[1] THEN [k |-> "atom", p |-> j[2], a |-> j[3]] ELSE [k |-> "not", f |-> [k |-> "atom", p |-> j[2], a |-> j[3]]]
WithPre(D, act, f) == [D EXCEPT !.actions = [i \in DOMAIN D.actions |-> IF D.actions[i].name = act THEN [D.actions[i] EXCEPT !.pre = f] ELSE D.actions[i]]]

JAddLiteral(e, st) ==
  LET D == st[e.d].D
      a == ActionNamed(D, e.act)
      pre2 == [k |-> "and", fs |-> Append(a.pre.fs, LitF(e.lit))]
      s2 == Put(st, e.d, [kind |-> "domain", D |-> WithPre(D, e.act, pre2), digest |-> (IF Has(e.out, "digest") THEN e.out.digest ELSE "none")])
  IN  IF Has(e.out, "exc") THEN Fail("AddLiteral:exception", st) ELSE Ok(s2)

\* the literal to remove occurs exactly once, as a top-level conjunct (other cases are not generated)
JRemoveLiteral(e, st) ==
  LET D == st[e.d].D
      a == ActionNamed(D, e.act)
      idx == {i \in DOMAIN a.pre.fs : a.pre.fs[i] = LitF(e.lit)}
      pre2 == [k |-> "and", fs |-> SelectSeq(a.pre.fs, LAMBDA x : x # LitF(e.lit))]
      s2 == Put(st, e.d, [kind |-> "domain", D |-> WithPre(D, e.act, pre2), digest |-> (IF Has(e.out, "digest") THEN e.out.digest ELSE "none")])
  IN  IF Has(e.out, "exc") THEN Fail("RemoveLiteral:exception", st)
      ELSE IF Cardinality(idx) # 1 THEN Ok(s2)
      ELSE Ok(s2)

\* JointActionCall: derived views of a list of member calls
JJointCallProps(e, st) ==
  LET ms == MembersOfJson(e.members)
      act == Active(ms)
  IN  IF /\ e.out.count = Len(act)
         /\ MembersOfJson(e.out.operational) = act
         /\ e.out.params = FlattenSeq([i \in DOMAIN ms |-> ms[i].args])
      THEN Ok(st) ELSE Fail("JointCallProps", st)

----------------------------------------------------------------------------
(* Grounding (C20) *)

LitOfJson(j) == [pos |-> j[1], p |-> j[2], a |-> j[3], ty |-> j[4]]
NumOfJson(tr) ==    \* (op (f args) expr) as a token tree
  [op |-> HeadSym(tr), t |-> ExprOfTree(tr.c[2]), e |-> ExprOfTree(tr.c[3])]
GroupOfJson(g) == [adds |-> {LitOfJson(x) : x \in Range(g.adds)}, dels |-> {LitOfJson(x) : x \in Range(g.dels)},
                   nums |-> {NumOfJson(x) : x \in Range(g.nums)}]

JGround(e, st) ==
  LET D == st[e.d].D
      a == ActionNamed(D, e.act)
      env == EnvOfCall(a, e.args)
      u == st[e.u].u
      adm(dv) ==
        LET dd == "RepeatedFluentArg" \in dv IN
        /\ ~Has(e.out, "exc")
        /\ {LitOfJson(x) : x \in Range(e.out.pre_lits)} = {GroundLit(D, a, env, lt) : lt \in LitsOfF(a.pre)}
        /\ {FormulaOfTree(x) : x \in Range(e.out.pre_nums)}
              = {[c EXCEPT !.l = GroundExpr(c.l, env, dd), !.r = GroundExpr(c.r, env, dd)] : c \in CmpsOfF(a.pre)}
        \* effect groups: the unconditional one and one per `when'
        /\ {GroupOfJson(g) : g \in Range(e.out.groups)}
              = {GroundGroup(D, a, env, UncondSeq(a.eff), dd)}
                \cup {GroundGroup(D, a, env, a.eff[i].es, dd) : i \in {j \in DOMAIN a.eff : a.eff[j].k = "when"}}
        /\ Len(e.out.groups) = 1 + Cardinality({j \in DOMAIN a.eff : a.eff[j].k = "when"})
        \* typed call: every argument with the declared type of that object / constant
        /\ e.out.call[1] = e.act
        /\ e.out.call[2] = [i \in DOMAIN e.args |-> <<e.args[i], TypeOfArg(D, u, e.args[i])>>]
  IN  IF ~HasAction(D, e.act) \/ ~SupAction(a, CtxOf(D)) THEN Ok(st)
      ELSE WithDevs(adm, "Ground", st)

----------------------------------------------------------------------------
(* states as values, operators as objects *)

JCopyState(e, st) ==
  LET want == st[e.s]
      s2 == Put(st, e.h, [kind |-> "state", st |-> want.st, hdr |-> want.hdr])
  IN  IF Has(e.out, "st") /\ StJsonClean(e.out.st) /\ ExactEq(want.st, StOfJson(e.out.st)) /\ e.out.st.hdr = want.hdr
      THEN Ok(s2) ELSE Fail("CopyState", s2)

\* a State object changed in place through its public containers (a fact added to / removed from
\* state_predicates, set_value on a fluent): by contract the handle denotes the edited value from
\* then on - later applicability answers and successors are judged against it
VerOf(st, s) == IF "ver" \in DOMAIN st[s] THEN st[s].ver ELSE 0     \* in-place edits the state object has seen
JEditState(e, st) ==
  LET old == st[e.s].st
      fact == <<e.fact[1], e.fact[2]>>
      want == [facts |-> (IF e.how = "add" THEN old.facts \cup {fact} ELSE IF e.how = "remove" THEN old.facts \ {fact} ELSE old.facts),
               fl |-> (IF e.how = "set" THEN [g \in DOMAIN old.fl |-> IF g = <<e.f, e.a>> THEN <<e.v[1], e.v[2]>> ELSE old.fl[g]]
                       ELSE IF e.how = "unset" THEN [g \in DOMAIN old.fl \ {<<e.f, e.a>>} |-> old.fl[g]]
                       ELSE old.fl)]
      got == StOfJson(e.out.st)
      s2 == Put(st, e.s, [kind |-> "state", st |-> got, hdr |-> st[e.s].hdr, ver |-> VerOf(st, e.s) + 1])
  IN  IF ~Has(e.out, "st") THEN Fail("EditState:exception", st)
      ELSE IF /\ StJsonClean(e.out.st) /\ StEq(want, got) /\ e.out.st.hdr = st[e.s].hdr
              /\ (e.how = "set" => got.ex[<<e.f, e.a>>] = e.x)        \* the value that was set, exactly
           THEN Ok(s2)
      ELSE Fail("EditState:content", s2)

JStateEq(e, st) ==
  IF Has(e.out, "val") /\ e.out.val = StEq(st[e.a].st, st[e.b].st) THEN Ok(st) ELSE Fail("StateEq", st)

JNewOperator(e, st) ==
  Ok(Put(st, e.h, [kind |-> "op", d |-> e.d, u |-> e.u, act |-> e.act, args |-> e.args]))

\* the same Operator object used again: arguments come from its handle
OpEvent(e, st) == [d |-> st[e.op].d, u |-> st[e.op].u, act |-> st[e.op].act, args |-> st[e.op].args, s |-> e.s,
                   h |-> (IF Has(e, "h") THEN e.h ELSE "none"), out |-> e.out,
                   allow |-> (IF Has(e, "allow") THEN e.allow ELSE FALSE), skip |-> (IF Has(e, "skip") THEN e.skip ELSE FALSE)]

\* Repeating a call returns the same result (C07), also where the semantics leaves the result open:
\* the same Operator object asked about / applied to the same, unedited state object with the same flags.
\* The store remembers the first answer under a key made of the operator handle, the state handle, the
\* number of in-place edits the state has seen, the flags and the kind of call.
RepKey(e, st, kind) == "rep|" \o e.op \o "|" \o e.s \o "|" \o ToString(VerOf(st, e.s)) \o "|" \o kind
                       \o (IF Has(e, "allow") /\ e.allow THEN "|allow" ELSE "") \o (IF Has(e, "skip") /\ e.skip THEN "|skip" ELSE "")
RepObs(e) == IF Has(e.out, "exc") THEN [exc |-> TRUE]
             ELSE IF Has(e.out, "val") THEN [exc |-> FALSE, val |-> e.out.val]
             ELSE [exc |-> FALSE, st |-> [facts |-> StOfJson(e.out.st).facts, fl |-> StOfJson(e.out.st).fl]]
\* ... except where two effects that may fire together write one fluent or add and delete one atom: PDDL
\* gives such an application no meaning and the outcome is whatever order the effects are met in
EffConflict(e, st) ==
  LET o == OpEvent(e, st)
      D == st[o.d].D
  IN  IF ~HasAction(D, o.act) THEN TRUE
      ELSE LET a == ActionNamed(D, o.act) IN
           IF Len(o.args) # Len(a.params) THEN TRUE
           ELSE LET env == EnvOfCall(a, o.args)
                    u == st[o.u].u
                    effs == FlattenEffs(a.eff)
                    G == IF \A i \in DOMAIN effs : KnownEffect(effs[i]) THEN Groups(effs, env, u) ELSE {}
                    F == {g \in G : GroupTruth(g, st[o.s].st, u, Eps, {}) # "F"}
                IN  G = {} \/ ~Consistent(F) \/ ~NoDupGroups(effs)
JRepeat(e, st, kind, r) ==
  LET k == RepKey(e, st, kind)
      obs == RepObs(e)
  IN  IF r.v # "" THEN r
      ELSE IF kind = "apply" /\ EffConflict(e, st) THEN r
      ELSE IF k \in DOMAIN r.s
           THEN (IF r.s[k].obs = obs THEN r ELSE [r EXCEPT !.v = "Repeat:" \o kind])
           ELSE [r EXCEPT !.s = Put(r.s, k, [kind |-> "memo", obs |-> obs])]

\* Purity: every live handle still has the value the store holds for it
SnapOk(h, v, st) ==
  IF h \notin DOMAIN st THEN TRUE
  ELSE IF st[h].kind = "state" THEN StJsonClean(v) /\ ExactEq(st[h].st, StOfJson(v)) /\ v.hdr = st[h].hdr
  ELSE IF st[h].kind \in {"run", "jrun"} THEN
         /\ Len(v) = Len(st[h].steps)
         /\ \A i \in DOMAIN v : /\ StJsonClean(v[i].pre) /\ StJsonClean(v[i].post)
                                 /\ ExactEq(StOfJson(v[i].pre), st[h].steps[i].pre) /\ v[i].pre.hdr = st[h].steps[i].preHdr
                                 /\ ExactEq(StOfJson(v[i].post), st[h].steps[i].post) /\ v[i].post.hdr = st[h].steps[i].postHdr
  ELSE IF st[h].kind = "domain" THEN v = st[h].digest
  ELSE TRUE

JSnap(e, st) ==
  IF \A h \in DOMAIN e.snap : SnapOk(h, e.snap[h], st) THEN Ok(st)
  ELSE Fail("Purity:" \o (CHOOSE h \in DOMAIN e.snap : ~SnapOk(h, e.snap[h], st)), st)

Judge(e, st) ==
  CASE e.c = "ParseDomain"  -> JParseDomain(e, st)
    [] e.c = "Objects"      -> JObjects(e, st)
    [] e.c = "NewState"     -> JNewState(e, st)
    [] e.c = "IsApplicable" -> JIsApplicable(e, st)
    [] e.c = "Apply"        -> JApply(e, st)
    [] e.c = "Snap"         -> JSnap(e, st)
    [] e.c = "ParseProblem" -> JParseProblem(e, st)
    [] e.c = "InitialState" -> JInitialState(e, st)
    [] e.c = "TypeMatrix"   -> JTypeMatrix(e, st)
    [] e.c = "TypeGraph"    -> JTypeGraph(e, st)
    [] e.c = "RunPlan"      -> JRunPlan(e, st)
    [] e.c = "ExportTrajectory" -> JExportTrajectory(e, st)
    [] e.c = "ParseTrajectory"  -> JParseTrajectory(e, st)
    [] e.c = "Ground"       -> JGround(e, st)
    [] e.c = "StateObjects" -> JStateObjects(e, st)
    [] e.c = "FluentConditions" -> JFluentConditions(e, st)
    [] e.c = "TypedSerialize" -> JTypedSerialize(e, st)
    [] e.c = "ShallowCopy"  -> JShallowCopy(e, st)
    [] e.c = "AddLiteral"   -> JAddLiteral(e, st)
    [] e.c = "RemoveLiteral" -> JRemoveLiteral(e, st)
    [] e.c = "JointCallProps" -> JJointCallProps(e, st)
    [] e.c = "Rename"       -> JRename(e, st)
    [] e.c = "PrintExpr"    -> JPrintExpr(e, st)
    [] e.c = "CmpProbe"     -> JCmpProbe(e, st)
    [] e.c = "Simplify"     -> JSimplify(e, st)
    [] e.c = "ApplyJoint"   -> JApplyJoint(e, st)
    [] e.c = "RunJointPlan" -> JRunJointPlan(e, st)
    [] e.c = "ExportJointTrajectory" -> JExportJointTrajectory(e, st)
    [] e.c = "ParseJointTrajectory"  -> JParseJointTrajectory(e, st)
    [] e.c = "ConvertPlan"  -> JConvertPlan(e, st)
    [] e.c = "CombineDomains" -> JCombineDomains(e, st)
    [] e.c = "CombineProblems" -> JCombineProblems(e, st)
    [] e.c = "ExportDomain" -> JExportDomain(e, st)
    [] e.c = "ExportProblem" -> JExportProblem(e, st)
    [] e.c = "CopyState"    -> JCopyState(e, st)
    [] e.c = "StateEq"      -> JStateEq(e, st)
    [] e.c = "EditState"    -> JEditState(e, st)
    [] e.c = "NewOperator"  -> JNewOperator(e, st)
    [] e.c = "ApplyOp"      -> JRepeat(e, st, "apply", JApply(OpEvent(e, st), st))
    [] e.c = "IsApplicableOp" -> JRepeat(e, st, "applicable", JIsApplicable(OpEvent(e, st), st))
    [] e.c = "AppTable"     -> JAppTable(e, st)
    [] e.c = "ApplyTable"   -> JApplyTable(e, st)
    [] OTHER                -> Fail("machinery:unknown-event:" \o e.c, st)

\* what the specification expected at a rejected event (diagnostics only)
Explain(e, st) ==
  CASE e.c = "IsApplicable" -> IsApplicable_Exp(st[e.d].D, st[e.u].u, e.act, e.args, st[e.s].st, {})
    [] e.c = "Apply" -> Apply_Exp(st[e.d].D, st[e.u].u, e.act, e.args, st[e.s].st, e.allow, e.skip, {})
    [] e.c = "ParseDomain" -> ParseDomain_Exp(e.tree)
    [] e.c = "ApplyJoint" -> JointExp(st[e.d].D, st[e.u].u, MembersOfJson(e.members), st[e.s].st, e.allow, Eps, {})
    [] e.c = "ConvertPlan" -> LET D == st[e.d].D  u == st[e.p].u
                                  init == [facts |-> st[e.p].P.init.facts, fl |-> st[e.p].P.init.fl]
                                  joint == [i \in DOMAIN e.out.joint |-> MembersOfJson(e.out.joint[i])]
                              IN  [seq |-> SeqRun(D, u, MembersOfJson(e.plan), init, Eps, {}),
                                   joint |-> RunJoint(D, u, joint, init, Eps, {})]
    [] e.c = "Ground" -> LET a == ActionNamed(st[e.d].D, e.act) env == EnvOfCall(a, e.args) IN
         [lits |-> {GroundLit(st[e.d].D, a, env, lt) : lt \in LitsOfF(a.pre)},
          nums |-> {[c EXCEPT !.l = GroundExpr(c.l, env, FALSE), !.r = GroundExpr(c.r, env, FALSE)] : c \in CmpsOfF(a.pre)},
          groups |-> {GroundGroup(st[e.d].D, a, env, UncondSeq(a.eff), FALSE)}
                \cup {GroundGroup(st[e.d].D, a, env, a.eff[i].es, FALSE) : i \in {j \in DOMAIN a.eff : a.eff[j].k = "when"}}]
    [] e.c = "RunPlan" -> RunPlan_Exp(st[e.d].D, st[e.p].u, [i \in DOMAIN e.plan |-> CallOfJson(e.plan[i])],
                                      [facts |-> st[e.p].P.init.facts, fl |-> st[e.p].P.init.fl], e.allow, {})
    [] e.c = "ExportDomain" -> IF Has(e.out, "tree")
         THEN BehaviourDiffs(st[e.d].D, DomainOfTree(e.out.tree), st[e.u].u, st, Range(e.states), IF Has(e, "calls") THEN e.calls ELSE <<>>)
         ELSE "n/a"
    [] e.c = "ApplyOp" -> Apply_Exp(st[st[e.op].d].D, st[st[e.op].u].u, st[e.op].act, st[e.op].args, st[e.s].st, e.allow, e.skip, {})
    [] e.c = "ParseProblem" -> ParseProblem_Exp(st[e.d].D, e.tree, {})
    [] e.c = "TypeMatrix" -> {<<a, b>> \in (TypeNamesOf(st[e.d].D) \cup {"object"}) \X (TypeNamesOf(st[e.d].D) \cup {"object"}) : SubTypeOf(st[e.d].D, a, b)}
    [] e.c = "AppTable" ->
         LET bad == {i \in DOMAIN e.rows : ~AppRowOk(e, e.rows[i], st, {})}
             i == CHOOSE j \in bad : TRUE
         IN  <<"row", i, e.rows[i].args, e.rows[i].s,
               IsApplicable_Exp(st[e.d].D, st[e.u].u, e.act, e.rows[i].args, st[e.rows[i].s].st, {})>>
    [] e.c = "ApplyTable" ->
         LET bad == {i \in DOMAIN e.rows : ~ApplyRowOk(e, e.rows[i], st, {})}
             i == CHOOSE j \in bad : TRUE
         IN  <<"row", i, e.rows[i].args, e.rows[i].s,
               Apply_Exp(st[e.d].D, st[e.u].u, e.act, e.rows[i].args, st[e.rows[i].s].st, e.rows[i].allow, e.rows[i].skip, {})>>
    [] OTHER -> "n/a"

----------------------------------------------------------------------------
Init == t = 1 /\ l = 1 /\ store = Empty /\ verdict = NoVerdict /\ TLCSet(1, 0)

Finish ==
  /\ t <= Len(Hists)
  /\ (l > Len(Hists[t].ev) \/ verdict.fail # "")
  /\ PrintT(<<"VERDICT", Hists[t].id, verdict.fail, verdict.known, l - 1>>)
  /\ IF verdict.fail # "" /\ ExplainOn
     THEN PrintT(<<"EXPLAIN", Hists[t].id, l - 1, Explain(Hists[t].ev[l - 1], store)>>) ELSE TRUE
  /\ TLCSet(1, t)
  /\ t' = t + 1 /\ l' = 1 /\ store' = Empty /\ verdict' = NoVerdict

Step ==
  /\ t <= Len(Hists)
  /\ l <= Len(Hists[t].ev) /\ verdict.fail = ""
  /\ LET r == Judge(Hists[t].ev[l], store)
     IN  /\ store' = r.s
         /\ verdict' = [fail |-> r.v, known |-> verdict.known \cup r.k]
  /\ l' = l + 1 /\ t' = t

Next == Step \/ Finish
Spec == Init /\ [][Next]_tvars

\* every history was consumed (POSTCONDITION; needs -workers 1)
AllConsumed == TLCGet(1) = Len(Hists)
=============================================================================
