------------------------------ MODULE MC_Grammar -------------------------------
(* Reading a rendered domain gives back what was rendered, and classifies   *)
(* it correctly: every supported-family domain is inside the fragment,      *)
(* every lenient-family domain outside it (so "faithful or exception" is    *)
(* applied to exactly the intended texts).                                   *)
EXTENDS DomainFamily

VARIABLES c
Styles == {"each", "group"}
Init == \/ \E i \in DOMAIN LenientCases : c = LenientCases[i]
        \/ \E pg \in (IF Mode = "pre" THEN Formulas ELSE EffLists), st \in Styles, sg \in BOOLEAN :
              c = [SupportedCase(pg, Mode, st, sg) EXCEPT !.name = <<pg, st, sg>>]
Next == UNCHANGED c
Spec == Init /\ [][Next]_c

Dom == DomainOfTree(c.tree)
Act == Dom.actions[1]

\* (PddlApi!AllSupported without importing PddlApi's constant)
AllSupported0 == SupDecls(Dom) /\ \A i \in DOMAIN Dom.actions : SupAction(Dom.actions[i], CtxOf(Dom))

Classified == IF c.kind = "supported" THEN AllSupported0 ELSE ~AllSupported0

strip(e) == IF e.k = "forall" THEN [k |-> "forall", v |-> e.v, t |-> e.t, c |-> e.c, es |-> e.es] ELSE e
ReadBack == c.kind = "supported" =>
  LET pg == c.name[1] IN
  /\ Act.params = <<<<"?x", "t1">>, <<"?y", "t1">>>>
  /\ (c.mode = "pre" => Act.pre = pg)
  /\ (c.mode = "eff" => [j \in DOMAIN Act.eff |-> strip(Act.eff[j])] = [j \in DOMAIN pg |-> strip(pg[j])])
  /\ VocabOf(Dom).preds = {<<"p", <<"t1">>>>, <<"q", <<"t1", "t1">>>>}
  /\ VocabOf(Dom).types = {<<"t1", "object">>, <<"t2", "t1">>}
\* no lenient text is read as containing a malformed node
NoBadNodes == c.kind # "supported" => Act.name = "act"
=============================================================================
