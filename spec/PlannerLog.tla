------------------------------ MODULE PlannerLog -------------------------------
(***************************************************************************)
(* Planner logs (C19).  A log is a sequence of lines, a line a sequence of *)
(* tokens; a token is [l : its lower-cased text, k : its lexical kind] with *)
(* k = "stepno" for digits followed by a colon and "w" otherwise (the       *)
(* lexer is part of the harness' trusted base - TLC cannot look inside a    *)
(* string).                                                                 *)
(*   Marker   the line  ff: found legal plan as follows                     *)
(*   step     [step] <digits>: NAME ARG*                                    *)
(*   PlanOf   the maximal run of step lines after the first marker (blank   *)
(*            lines may separate the marker from the first step)            *)
(*   Status   ok / no-solution / timeout                                    *)
(***************************************************************************)
EXTENDS Integers, Sequences, FiniteSets, TLC

Texts(line) == [i \in DOMAIN line |-> line[i].l]
IsMarker(line) == Texts(line) = <<"ff:", "found", "legal", "plan", "as", "follows">>
IsBlank(line) == line = <<>>
IsStep(line) ==
  \/ Len(line) >= 2 /\ line[1].k = "stepno"
  \/ Len(line) >= 3 /\ line[1].l = "step" /\ line[2].k = "stepno"
StepCall(line) == IF line[1].k = "stepno" THEN Texts(SubSeq(line, 2, Len(line))) ELSE Texts(SubSeq(line, 3, Len(line)))

Unsolvable == { <<"problem", "proven", "unsolvable.">>,
                <<"ff:", "goal", "can", "be", "simplified", "to", "false.", "no", "plan", "will", "solve", "it">>,
                <<"all", "increasers", "applied", "yet", "goal", "not", "fulfilled">> }
\* a marker phrase occurs in a line when it is a contiguous run of its tokens
Occurs(phrase, line) == \E i \in 0..(Len(line) - Len(phrase)) : \A j \in DOMAIN phrase : line[i + j].l = phrase[j]

HasPlan(log) == \E i \in DOMAIN log : IsMarker(log[i])
FirstMarker(log) == CHOOSE i \in DOMAIN log : IsMarker(log[i]) /\ \A j \in 1..(i - 1) : ~IsMarker(log[j])

RECURSIVE SkipBlank(_, _), TakeSteps(_, _)
SkipBlank(log, i) == IF i <= Len(log) /\ IsBlank(log[i]) THEN SkipBlank(log, i + 1) ELSE i
TakeSteps(log, i) == IF i <= Len(log) /\ IsStep(log[i]) THEN <<StepCall(log[i])>> \o TakeSteps(log, i + 1) ELSE <<>>

PlanOf(log) == IF ~HasPlan(log) THEN <<>> ELSE TakeSteps(log, SkipBlank(log, FirstMarker(log) + 1))
Status(log) ==
  IF HasPlan(log) THEN "ok"
  ELSE IF \E i \in DOMAIN log : \E p \in Unsolvable : Occurs(p, log[i]) THEN "no-solution"
  ELSE "timeout"
=============================================================================
