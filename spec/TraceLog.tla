------------------------------- MODULE TraceLog --------------------------------
(***************************************************************************)
(* Trace validation for the planner-log readers (C19).  Each record is one *)
(* log handed to MetricFFParser.get_solving_status / parse_plan (kind ff)  *)
(* or ENHSPParser.parse_plan_content (kind enhsp) with what came back.     *)
(* ff:    status = PlannerLog!Status, actions = PlannerLog!PlanOf, and the *)
(*        written plan file holds the same actions (no file without plan)  *)
(* enhsp: one action per line, lower-cased, in order                        *)
(***************************************************************************)
EXTENDS PlannerLog, Json, IOUtils

CONSTANT KnownDevs
Recs == ndJsonDeserialize(IOEnv.TRACE_FILE)
VARIABLE i
Has(e, k) == k \in DOMAIN e

Admitted(r) ==
  IF Has(r.out, "exc") THEN FALSE
  ELSE IF r.kind = "ff" THEN
         /\ r.out.status = Status(r.lines)
         /\ r.out.plan = PlanOf(r.lines)
         /\ r.out.file = PlanOf(r.lines)
  ELSE  \* enhsp: every line of the plan file is an action
         r.out.plan = [j \in DOMAIN r.lines |-> Texts(r.lines[j])]

Init == i = 1 /\ TLCSet(1, 0)
Next == /\ i <= Len(Recs)
        /\ IF Admitted(Recs[i]) THEN TRUE ELSE PrintT(<<"VERDICT", Recs[i].id, "PlannerLog", {}, 1>>)
        /\ TLCSet(1, i)
        /\ i' = i + 1
Spec == Init /\ [][Next]_i
AllConsumed == TLCGet(1) = Len(Recs) /\ PrintT(<<"CONSUMED", Len(Recs)>>)
=============================================================================
