----------------------------- MODULE MC_PlannerLog -----------------------------
(* Logs assembled from header lines, an optional marker, a plan of 0..3      *)
(* steps and trailer lines (none of which is a step line): the extracted     *)
(* plan is exactly the plan's steps whatever surrounds them, and the status  *)
(* follows the markers.  Negative control: a reading that lets a trailing    *)
(* line made of plain words continue the last step.                          *)
EXTENDS PlannerLog, SequencesExt

W(s) == [l |-> s, k |-> "w"]
No(s) == [l |-> s, k |-> "stepno"]
Marker == <<W("ff:"), W("found"), W("legal"), W("plan"), W("as"), W("follows")>>
Headers == { <<>>, <<W("ff:"), W("parsing"), W("domain"), W("file")>>, <<W("cueing"), W("down"), W("from"), W("goal"), W("distance:"), W("18"), W("into"), W("depth"), W("[1][2]")>>,
             <<W("problem"), W("proven"), W("unsolvable.")>> }
Trailers == { <<>>, <<W("plan"), W("cost:"), W("54.000000")>>, <<W("done")>>, <<W("time"), W("spent:"), W("0.00"), W("seconds")>>, <<W("drive"), W("truck0")>> }
Step(i, first) == (IF first THEN <<W("step")>> ELSE <<>>) \o <<No("n"), W("drive"), W("truck" \o ToString(i))>>
StepsOf(n) == [i \in 1..n |-> Step(i, i = 1)]

VARIABLES hs, mk, n, ts
vars == <<hs, mk, n, ts>>
Init == /\ hs \in UNION {[1..k -> Headers] : k \in 0..2}
        /\ mk \in BOOLEAN /\ n \in 0..3
        /\ ts \in UNION {[1..k -> Trailers] : k \in 0..2}
Next == UNCHANGED vars
Spec == Init /\ [][Next]_vars

Log == hs \o (IF mk THEN <<Marker>> ELSE <<>>) \o StepsOf(n) \o ts
PlanIsSteps == PlanOf(Log) = (IF mk THEN [i \in 1..n |-> <<"drive", "truck" \o ToString(i)>>] ELSE <<>>)
StatusOk == Status(Log) = IF mk THEN "ok"
                          ELSE IF \E i \in DOMAIN hs : hs[i] = <<W("problem"), W("proven"), W("unsolvable.")>> THEN "no-solution" ELSE "timeout"
\* negative control: word-only trailer lines glued onto the last step
GluePlan(log) ==
  LET p == PlanOf(log) IN
  IF p = <<>> THEN p
  ELSE LET i == FirstMarker(log) + Len(p) + 1 IN
       IF i <= Len(log) /\ log[i] # <<>> /\ \A j \in DOMAIN log[i] : log[i][j].k = "w" /\ log[i][j].l \in {"done", "drive", "truck0"}
       THEN [p EXCEPT ![Len(p)] = @ \o Texts(log[i])] ELSE p
BadGlue == GluePlan(Log) = PlanOf(Log)
=============================================================================
