------------------------------ MODULE Gen_Core --------------------------------
(***************************************************************************)
(* Generation (spec -> code): every program of MC_Semantics' bounded family *)
(* is rendered as a PDDL domain token tree by Grammar!TreeOfDomain and      *)
(* written to IOEnv.GEN_FILE (ndjson).  The harness lays the tree out as    *)
(* text, drives the library over every state and binding of the universe    *)
(* and hands the recorded calls to TraceApi.                                *)
(* Sanity of the renderer is checked on the way: reading the emitted tree   *)
(* back (DomainOfTree) must give the action that was rendered.              *)
(***************************************************************************)
EXTENDS CoreFamily, Json, IOUtils

Progs == IF Mode = "pre" THEN Formulas ELSE EffLists
ProgSeq == SetToSeq(Progs)

ActionFor(pg) ==
  [name |-> "act", params |-> <<<<"?x", "t1">>, <<"?y", "t1">>>>,
   pre |-> IF Mode = "pre" THEN pg ELSE TrueF,
   eff |-> IF Mode = "pre" THEN <<[k |-> "add", p |-> "p", a |-> <<"?x">>]>> ELSE pg]

DomainFor(pg) ==
  [name |-> "mc", reqs |-> <<":typing">>,
   typeDecl |-> <<<<"t1", "object">>, <<"t2", "t1">>>>,
   consts |-> <<>>,
   preds |-> <<[name |-> "p", params |-> <<<<"?a", "t1">>>>], [name |-> "q", params |-> <<<<"?a", "t1">>, <<"?b", "t1">>>>]>>,
   funcs |-> <<[name |-> "f", params |-> <<<<"?a", "t1">>>>], [name |-> "g", params |-> <<>>]>>,
   actions |-> <<ActionFor(pg)>>]

Case(i) == [id |-> i, tree |-> TreeOfDomain(DomainFor(ProgSeq[i]), "each", FALSE)]

RoundTrip(i) ==
  LET a == DomainOfTree(Case(i).tree).actions[1]
      b == ActionFor(ProgSeq[i])
      \* the reader marks quantified effects with how they were written
      strip(e) == IF e.k = "forall" THEN [k |-> "forall", v |-> e.v, t |-> e.t, c |-> e.c, es |-> e.es, bare |-> FALSE] ELSE e
  IN  a.name = b.name /\ a.params = b.params /\ a.pre = b.pre
      /\ a.eff = [j \in DOMAIN b.eff |-> strip(b.eff[j])]

ASSUME \A i \in DOMAIN ProgSeq : RoundTrip(i)
ASSUME ndJsonSerialize(IOEnv.GEN_FILE, [i \in DOMAIN ProgSeq |-> Case(i)])
ASSUME PrintT(<<"GENERATED", Len(ProgSeq)>>)

VARIABLE dummy
GInit == dummy = 0
GNext == UNCHANGED dummy
=============================================================================
