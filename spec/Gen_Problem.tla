----------------------------- MODULE Gen_Problem ------------------------------
(* Emits ProblemFamily (bases in every style, every corruption) as problem  *)
(* token trees together with the domain's token tree.                       *)
EXTENDS ProblemFamily, Json, IOUtils

DomTree == TreeOfDomain([name |-> PDom.name, reqs |-> <<":typing">>, typeDecl |-> PDom.typeDecl, consts |-> PDom.consts,
                         preds |-> PDom.preds, funcs |-> PDom.funcs, actions |-> <<>>], "each", FALSE)

BaseCases == {[kind |-> "base", b |-> i, style |-> st, tree |-> TreeOfProblem(Base[i], st)] : i \in DOMAIN Base, st \in Styles}
CorrCases == UNION {{[kind |-> x.kind, b |-> i, style |-> "each", tree |-> TreeOfProblem(x.P, "each")] : x \in AllCorr(Base[i])} : i \in DOMAIN Base}
AllSeq == SetToSeq(BaseCases \cup CorrCases)

ASSUME ndJsonSerialize(IOEnv.GEN_FILE, [i \in DOMAIN AllSeq |-> [id |-> i, kind |-> AllSeq[i].kind, b |-> AllSeq[i].b,
                                                              dom |-> DomTree, tree |-> AllSeq[i].tree]])
ASSUME PrintT(<<"GENERATED", Len(AllSeq)>>)
VARIABLE dummy
GInit == dummy = 0
GNext == UNCHANGED dummy
=============================================================================
