#!/bin/sh
# Offline set-up: nothing is built; this only checks that the tool chain the checks need is
# present and that every specification module parses.
set -e
cd "$(dirname "$0")"
command -v java >/dev/null
test -f /opt/veriftools/tla/tla2tools.jar
/venv/bin/python -c "import sys; sys.path.insert(0, '/repo'); import pddl_plus_parser"
mkdir -p .work replays evidence
for f in spec/*.tla; do
  out=$(cd spec && java -cp /opt/veriftools/tla/tla2tools.jar:/opt/veriftools/tla/CommunityModules-deps.jar tla2sany.SANY "$(basename "$f")" 2>&1) || true
  if echo "$out" | grep -qi "error"; then echo "SANY failed on $f"; echo "$out" | tail -20; exit 1; fi
done
echo "setup ok"
