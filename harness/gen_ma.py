"""Multi-agent inputs (C15, C16): STRIPS + numeric domains in which every action has exactly one
agent-typed parameter (its first) or no parameter at all, over agents, items and locations with a shared counter."""
import random

from gen_core import S, L, N, typed

TYPES = [("agent", "object"), ("item", "object"), ("loc", "object"), ("tool", "item"), ("dock", "loc")]
PARENT = {"agent": "object", "item": "object", "loc": "object", "tool": "item", "dock": "loc", "object": None}


def conforms(t, ty):
    while t is not None:
        if t == ty:
            return True
        t = PARENT[t]
    return False
PREDS = {"at": ["agent", "loc"], "has": ["agent", "item"], "on": ["item", "loc"], "clear": ["loc"], "done": ["item"],
         "busy": ["agent"], "alarm": []}
FUNCS = {"load": ["agent"], "total": []}


def A(p, *a):
    return L(S(p), *[S(x) for x in a])


def NOT(x):
    return L(S("not"), x)


TEMPLATES = {
    "move": ([["?a", "agent"], ["?from", "loc"], ["?to", "loc"]],
             [A("at", "?a", "?from"), NOT(L(S("="), S("?from"), S("?to")))],
             [NOT(A("at", "?a", "?from")), A("at", "?a", "?to")]),
    "pick": ([["?a", "agent"], ["?o", "item"], ["?l", "loc"]],
             [A("at", "?a", "?l"), A("on", "?o", "?l")],
             [NOT(A("on", "?o", "?l")), A("has", "?a", "?o"), L(S("increase"), L(S("load"), S("?a")), N(1)),
              L(S("increase"), L(S("total")), N(1))]),
    "drop": ([["?a", "agent"], ["?o", "item"], ["?l", "loc"]],
             [A("at", "?a", "?l"), A("has", "?a", "?o")],
             [NOT(A("has", "?a", "?o")), A("on", "?o", "?l"), L(S("decrease"), L(S("load"), S("?a")), N(1))]),
    "mark": ([["?a", "agent"], ["?o", "item"]],
             [A("has", "?a", "?o")],
             [A("done", "?o"), L(S("when"), L(S(">"), L(S("load"), S("?a")), N(1)), L(S("increase"), L(S("total")), N(2)))]),
    "clean": ([["?a", "agent"], ["?l", "loc"]],
              [A("at", "?a", "?l"), NOT(A("clear", "?l"))],
              [A("clear", "?l")]),
    "block": ([["?a", "agent"], ["?l", "loc"]],
              [A("at", "?a", "?l"), A("clear", "?l")],
              [NOT(A("clear", "?l")), A("busy", "?a")]),
    "rest": ([["?a", "agent"]],
             [A("busy", "?a")],
             [NOT(A("busy", "?a")), L(S("assign"), L(S("load"), S("?a")), N(0))]),
    "inspect": ([["?a", "agent"], ["?l", "loc"]],
                [A("at", "?a", "?l"), L(S("or"), A("clear", "?l"), A("busy", "?a")), L(S("<="), L(S("total")), N(100))],
                [L(S("when"), A("clear", "?l"), A("busy", "?a"))]),
    # facts without any parameter: one agent's action enables / disables another's although they share no object
    "disarm": ([["?a", "agent"]], [A("alarm")], [NOT(A("alarm"))]),
    "arm": ([["?a", "agent"]], [NOT(A("alarm")), NOT(A("busy", "?a"))], [A("alarm")]),
    "work": ([["?a", "agent"], ["?o", "item"]], [NOT(A("alarm")), A("has", "?a", "?o")], [A("done", "?o")]),
    "signal": ([["?a", "agent"]], [L(S(">="), L(S("total")), N(2)), NOT(A("busy", "?a"))], [A("busy", "?a")]),
    "count": ([["?a", "agent"]],
              [L(S(">="), L(S("load"), S("?a")), N(0))],
              [L(S("increase"), L(S("total")), L(S("+"), L(S("load"), S("?a")), N(1, 2)))]),
    # the same predicates under narrower parameter types (tool - item, dock - loc): the same ground fact is then
    # produced / consumed by actions that declare its arguments at different levels of the type tree
    "sweep": ([["?a", "agent"], ["?d", "dock"]], [A("at", "?a", "?d")], [A("clear", "?d")]),
    "seal": ([["?a", "agent"], ["?d", "dock"]], [A("at", "?a", "?d"), A("clear", "?d")], [NOT(A("clear", "?d"))]),
    "stash": ([["?a", "agent"], ["?o", "tool"], ["?d", "dock"]], [A("at", "?a", "?d"), A("on", "?o", "?d")], [A("done", "?o")]),
    # universally quantified effects: every item at the location is marked / every agent there gets busy
    "sweepall": ([["?a", "agent"], ["?l", "loc"]], [A("at", "?a", "?l")],
                 [L(S("forall"), L(S("?i"), S("-"), S("item")), L(S("when"), A("on", "?i", "?l"), A("done", "?i")))]),
    "ring": ([["?a", "agent"], ["?l", "loc"]], [A("at", "?a", "?l"), NOT(A("busy", "?a"))],
             [A("alarm"), L(S("forall"), L(S("?b"), S("-"), S("agent")), L(S("when"), A("at", "?b", "?l"), A("busy", "?b")))]),
    # an effect that reads what the same action changes (conditions and right-hand sides are read in the state
    # before the action): tidy makes the location clear, its forall fires only where it was clear already
    "tidy": ([["?a", "agent"], ["?l", "loc"]], [A("at", "?a", "?l")],
             [A("clear", "?l"), L(S("increase"), L(S("load"), S("?a")), N(1)),
              L(S("forall"), L(S("?i"), S("-"), S("item")), L(S("when"), L(S("and"), A("on", "?i", "?l"), A("clear", "?l")), A("done", "?i"))),
              L(S("when"), L(S(">"), L(S("load"), S("?a")), N(0)), A("busy", "?a"))]),
    # only numeric effects, one of them an assignment (does not commute with the increases of other actions)
    "zero": ([["?a", "agent"]], [NOT(A("busy", "?a"))], [L(S("assign"), L(S("total")), N(0)), L(S("increase"), L(S("load"), S("?a")), N(1))]),
    # actions without parameters (no agent of their own): legal members of a joint action
    "tick": ([], [], [L(S("increase"), L(S("total")), N(1))]),
    "hush": ([], [A("alarm")], [NOT(A("alarm"))]),
}


# other bodies under the same action names and parameter lists: two domains called "ma" of one process then
# give the same call text different meanings
VARIANTS = {
    "mark": ([["?a", "agent"], ["?o", "item"]],
             [A("has", "?a", "?o")],
             [A("done", "?o"), L(S("increase"), L(S("total")), N(3)), L(S("when"), A("busy", "?a"), NOT(A("busy", "?a")))]),
    "rest": ([["?a", "agent"]],
             [A("busy", "?a")],
             [NOT(A("busy", "?a")), L(S("assign"), L(S("load"), S("?a")), N(1)), L(S("increase"), L(S("total")), N(1, 2))]),
    "clean": ([["?a", "agent"], ["?l", "loc"]],
              [A("at", "?a", "?l")],
              [A("clear", "?l"), A("busy", "?a")]),
    "pick": ([["?a", "agent"], ["?o", "item"], ["?l", "loc"]],
             [A("at", "?a", "?l"), A("on", "?o", "?l"), NOT(A("busy", "?a"))],
             [NOT(A("on", "?o", "?l")), A("has", "?a", "?o"), L(S("increase"), L(S("load"), S("?a")), N(2))]),
    "tick": ([], [], [L(S("increase"), L(S("total")), N(5, 2))]),
}


def gen_domain(rng):
    names = ["move", "pick", "drop"] + rng.sample(["mark", "clean", "block", "rest", "inspect", "count", "disarm", "arm", "work", "signal"], rng.choice([3, 4, 5]))
    names += rng.sample(["sweep", "seal", "stash"], rng.choice([0, 1, 2]))
    names += rng.sample(["sweepall", "ring", "tidy", "zero"], rng.choice([0, 1, 1, 2]))
    if rng.random() < 0.5:
        names.append(rng.choice(["tick", "hush"]))
    acts = []
    for n in names:
        params, pre, eff = VARIANTS[n] if n in VARIANTS and rng.random() < 0.35 else TEMPLATES[n]
        acts.append(L(S(":action"), S(n), S(":parameters"), L(*typed(params)), S(":precondition"), L(S("and"), *pre),
                      S(":effect"), L(S("and"), *eff)))
    tree = L(S("define"), L(S("domain"), S("ma")), L(S(":requirements"), S(":typing")),
             L(S(":types"), *typed(TYPES)),
             L(S(":predicates"), *[L(S(p), *typed([[f"?x{i}", t] for i, t in enumerate(sig)])) for p, sig in PREDS.items()]),
             L(S(":functions"), *[L(S(f), *typed([[f"?x{i}", t] for i, t in enumerate(sig)])) for f, sig in FUNCS.items()]),
             *acts)
    return tree, [[n, TEMPLATES[n][0]] for n in names]


def gen_problem(rng, n_agents):
    agents = [f"a{i + 1}" for i in range(n_agents)]
    if rng.random() < 0.35:
        agents[-1] = "a10"      # a name that contains another agent's name (a1), listed after it
    items = [f"i{i + 1}" for i in range(rng.choice([2, 3]))]
    locs = [f"l{i + 1}" for i in range(rng.choice([1, 2]))]
    tools = ["t1"] if rng.random() < 0.6 else []
    docks = ["d1"]
    objs = [[a, "agent"] for a in agents] + [[i, "item"] for i in items] + [[x, "loc"] for x in locs] + \
           [[x, "tool"] for x in tools] + [[x, "dock"] for x in docks]
    items, locs = items + tools, locs + docks
    facts = [["at", [a, rng.choice(locs)]] for a in agents]
    facts += [["on", [i, rng.choice(locs)]] for i in items]
    facts += [["clear", [x]] for x in locs if rng.random() < 0.5]
    facts += [["busy", [a]] for a in agents if rng.random() < 0.3]
    facts += [["alarm", []]] if rng.random() < 0.5 else []
    fl = [["load", [a], [0, 1]] for a in agents] + [["total", [], [0, 1]]]
    items_t = [L(S(p), *[S(x) for x in a]) for p, a in facts] + \
              [L(S("="), L(S(f), *[S(x) for x in a]), {"t": "n", "v": v}) for f, a, v in fl]
    tree = L(S("define"), L(S("problem"), S("mp")), L(S(":domain"), S("ma")), L(S(":objects"), *typed(objs)),
             L(S(":init"), *items_t), L(S(":goal"), L(S("and"))))
    return tree, objs, agents


def gen_case(seed, cid, n_ops=10):
    rng = random.Random(seed * 104729 + cid)
    dom, acts = gen_domain(rng)
    prob, objs, agents = gen_problem(rng, rng.choice([2, 2, 3, 4]))
    return {"id": cid, "dom": dom, "prob": prob, "objs": objs, "agents": agents, "acts": acts,
            "seed": rng.randrange(1 << 30), "n_ops": n_ops}
