"""Plumbing shared by all checks: context (work dir, counters, verdict bookkeeping), running
drivers in parallel subprocesses (each under its own PYTHONHASHSEED), model-checking runs,
trace validation, known findings, replay files, evidence."""
import json
import os
import shutil
import subprocess
import sys
import time
from pathlib import Path

import tlc
from tlc import MachineryError

ROOT = Path(__file__).resolve().parent.parent
HARNESS = ROOT / "harness"
WORK = ROOT / ".work"
REPLAYS = ROOT / "replays"
# development runs against seeded changes write their evidence elsewhere (VERIF_EVIDENCE)
EVIDENCE = Path(os.environ.get("VERIF_EVIDENCE", ROOT / "evidence"))
PY = "/venv/bin/python"
NPROC = min(16, os.cpu_count() or 4)


def load_known():
    p = ROOT / "known_findings.json"
    data = json.loads(p.read_text()) if p.exists() else {"findings": [], "fixed": []}
    return data


class Ctx:
    def __init__(self, pid, tier, seed, level):
        self.pid = pid
        self.tier = tier
        self.seed = seed
        self.level = level
        self.work = WORK / f"{pid}.{os.getpid()}"      # one scratch directory per run: concurrent runs do not collide
        if self.work.exists():
            shutil.rmtree(self.work)
        self.work.mkdir(parents=True)
        REPLAYS.mkdir(exist_ok=True)
        self.t0 = time.time()
        self.states = 0
        self.transitions = 0
        self.evaluations = 0
        self.traces = 0
        self.nontrivial = set()
        self.samples = []
        self.violations = []     # (what, replay path)
        self.known_hit = {}      # deviation name -> count
        self.notes = []
        self.mc_runs = []
        self.negctl = []
        self.assumptions = []
        self.rule = ""
        self.exhaustive = False
        self.extra = {}
        self.drive_env = {}      # merged trace file -> extra environment its drivers ran under
        self.set_known(pid)

    def set_known(self, pid):
        kf = load_known()
        self.known = {f["name"]: f for f in kf.get("findings", []) if pid in f.get("properties", [f.get("property")])}
        self.all_known_names = {f["name"] for f in kf.get("findings", [])}

    @property
    def quick(self):
        return self.tier == "quick"

    def log(self, *a):
        print(f"[{self.pid} {time.time() - self.t0:6.1f}s]", *a, flush=True)

    # ------------------------------------------------------------------ model checking
    def mc(self, module, constants, invariants, workers=NPROC, timeout=2400, expect_violation=False, label=None,
           init_next=None, env=None):
        cfg = ""
        if init_next:
            cfg += f"INIT {init_next[0]}\nNEXT {init_next[1]}\n"
        else:
            cfg += "SPECIFICATION Spec\n"
        for k, v in constants.items():
            cfg += f"CONSTANT {k} = {v}\n" if not str(v).startswith("<-") else f"CONSTANT {k} {v}\n"
        for inv in invariants:
            cfg += f"INVARIANT {inv}\n"
        cfg += "CHECK_DEADLOCK FALSE\n"
        label = label or (module + ":" + ",".join(invariants))
        r = tlc.run_tlc(tlc.SPEC_DIR / f"{module}.tla", cfg, self.work / ("mc_" + label.replace(":", "_").replace(",", "_")[:60]),
                        workers=workers, timeout=timeout, env=env)
        out = r["out"]
        violated = "is violated" in out
        ok = "Model checking completed. No error has been found." in out
        if expect_violation:
            if not violated:
                raise MachineryError(f"negative control {label} was not refuted by TLC:\n{out[-2000:]}")
            self.negctl.append(label)
            self.log(f"negative control refuted as expected: {label} ({r['wall']:.1f}s)")
        else:
            if violated:
                # a violated invariant of the *specification* is a defect of the model, not of the code
                raise MachineryError(f"specification invariant violated in {label}:\n{out[-3000:]}")
            if not ok:
                raise MachineryError(f"TLC did not complete on {label}:\n{out[-3000:]}")
            self.states += r["distinct"]
            self.transitions += r["states"]
            self.mc_runs.append({"model": label, "distinct_states": r["distinct"], "states_generated": r["states"],
                                 "wall_s": round(r["wall"], 1)})
            self.log(f"model checked {label}: {r['distinct']} distinct states ({r['wall']:.1f}s)")
        return r

    def gen(self, module, constants, out_file, timeout=1800):
        """run a Gen_* module (ASSUME-driven emission of cases to IOEnv.GEN_FILE)"""
        cfg = "INIT GInit\nNEXT GNext\n"
        for k, v in constants.items():
            cfg += f"CONSTANT {k} = {v}\n"
        r = tlc.run_tlc(tlc.SPEC_DIR / f"{module}.tla", cfg, self.work / f"gen_{module}", workers=1, timeout=timeout,
                        env={"GEN_FILE": str(out_file)})
        if "GENERATED" not in r["out"] or not Path(out_file).exists():
            raise MachineryError(f"generator {module} failed:\n{r['out'][-3000:]}")
        self.log(f"{module} emitted {sum(1 for _ in open(out_file))} cases ({r['wall']:.1f}s)")
        return out_file

    # ------------------------------------------------------------------ drivers
    def drive(self, driver, cases, hashseeds=(0,), procs=NPROC, opts=None, timeout=5400, env=None):
        """cases: list of json-able case dicts.  Spawns `procs` workers
        (python harness/worker.py driver in out opts) and returns the path of the merged trace."""
        ids = [c.get("id") for c in cases]
        if len(set(ids)) != len(ids):      # verdicts are keyed by id: a duplicate would hide one of the two
            raise MachineryError(f"driver {driver}: duplicate case ids")
        d = self.work / f"drive_{driver}_{len(list(self.work.glob('drive_*')))}"
        d.mkdir(parents=True)
        procs = max(1, min(procs, len(cases)))
        chunks = [cases[i::procs] for i in range(procs)]
        ps = []
        for i, ch in enumerate(chunks):
            fin = d / f"in{i}.ndjson"
            with open(fin, "w") as f:
                for c in ch:
                    f.write(json.dumps(c) + "\n")
            e = dict(os.environ)
            e["PYTHONHASHSEED"] = str(hashseeds[i % len(hashseeds)])
            e["VERIF_WORK"] = str(self.work)
            e.update(env or {})
            ps.append(subprocess.Popen([PY, str(HARNESS / "worker.py"), driver, str(fin), str(d / f"out{i}.ndjson"),
                                        json.dumps(opts or {})], env=e, cwd=str(HARNESS),
                                       stdout=subprocess.PIPE, stderr=subprocess.STDOUT, text=True))
        t_end = time.time() + timeout
        for p in ps:
            try:
                out, _ = p.communicate(timeout=max(1, t_end - time.time()))
            except subprocess.TimeoutExpired:
                for q in ps:
                    q.kill()
                raise MachineryError(f"driver {driver} timed out")
            if p.returncode != 0:
                raise MachineryError(f"driver {driver} failed:\n{out[-3000:]}")
        merged = d / "trace.ndjson"
        self.drive_env[str(merged)] = env or {}
        with open(merged, "w") as g:
            for i in range(len(chunks)):
                g.write((d / f"out{i}.ndjson").read_text())
        return merged

    # ------------------------------------------------------------------ validation
    def validate(self, trace_file, cases_by_id=None, driver=None, opts=None, shards=NPROC, module="MCTrace",
                 eps="EpsDefault", nontrivial=None, timeout=5400, sparse=False, n_records=None):
        """validate histories; book-keep verdicts; returns verdict dict.
        sparse: the trace spec prints a verdict only for rejected / deviating records"""
        v, _, st, _ = tlc.validate_traces(trace_file, self.work / f"val_{len(list(self.work.glob('val_*')))}",
                                          self.all_known_names, module=module, shards=shards, eps=eps, timeout=timeout,
                                          sparse=sparse)
        self.states += st
        self.transitions += st
        self.traces += n_records if sparse else len(v)
        if sparse:
            self.evaluations += n_records - len(v)
        hist = None
        bad = [i for i, x in v.items() if x[0] or (x[1] - set(self.known))]
        for i, (fail, known, n) in v.items():
            self.evaluations += n
            for k in known:
                self.known_hit[k] = self.known_hit.get(k, 0) + 1
        if bad:
            hist = {}
            for line in open(trace_file):
                h = json.loads(line)
                if h["id"] in bad:
                    hist[h["id"]] = h
            # explanations for the failing ones only
            sub = self.work / "failing.ndjson"
            with open(sub, "w") as g:
                for i in bad[:20]:
                    g.write(json.dumps(hist[i]) + "\n")
            try:
                _, ex, _, _ = tlc.validate_traces(sub, self.work / "val_explain", self.all_known_names, module=module,
                                                  shards=min(shards, len(bad[:20])), explain=True, eps=eps, sparse=sparse)
            except MachineryError:
                ex = {}
            for i in bad[:20]:
                fail, known, n = v[i]
                what = fail or ("unlisted-deviation:" + ",".join(sorted(known - set(self.known))))
                rp = REPLAYS / f"{self.pid}-{len(self.violations) + 1}.json"
                rp.write_text(json.dumps({"property": self.pid, "verdict": what, "event": n, "driver": driver, "opts": opts,
                                          "sparse": sparse, "env": self.drive_env.get(str(trace_file), {}),
                                          "case": (cases_by_id or {}).get(i), "history": hist[i],
                                          "expected": ex.get(i, ""), "eps": eps, "module": module}, indent=1))
                self.violations.append((what, str(rp)))
            for i in bad[20:]:
                self.violations.append((v[i][0] or "unlisted-deviation", "(see first replays)"))
        return v

    def sample(self, x, cap=3):
        if len(self.samples) < cap:
            self.samples.append(x)

    # ------------------------------------------------------------------ finish
    def finish(self):
        wall = time.time() - self.t0
        cov = {
            "evaluations": int(self.evaluations),
            "distinct_nontrivial": len(self.nontrivial) if not isinstance(self.nontrivial, int) else self.nontrivial,
            "rule": self.rule,
            "samples": self.samples[:5] or ["(none)"],
            "states": int(self.states),
            "transitions": int(self.transitions),
            "traces_validated_against_impl": int(self.traces),
            "exhaustive": bool(self.exhaustive),
            "model_checking_runs": self.mc_runs,
            "negative_controls_refuted": self.negctl,
            "known_findings_hit": self.known_hit,
            "notes": self.notes,
        }
        cov.update(self.extra)
        ev = {"property_id": self.pid, "tier": self.tier, "seed": int(self.seed), "level": self.level, "coverage": cov,
              "assumptions": self.assumptions, "wall_s": round(wall, 2), "violations": len(self.violations)}
        EVIDENCE.mkdir(parents=True, exist_ok=True)
        (EVIDENCE / f"{self.pid}.json").write_text(json.dumps(ev, indent=1))
        for name, cnt in sorted(self.known_hit.items()):
            if name in self.known:
                print(f"KNOWN-FINDING: property={self.pid} {name}: {self.known[name]['what']} (seen in {cnt} histories)")
        seen = set()
        for what, rp in self.violations:
            if (what, rp) in seen:
                continue
            seen.add((what, rp))
            if rp.startswith("("):
                continue
            print(f"VIOLATION property={self.pid} replay={rp}  [{what}]")
        shutil.rmtree(self.work, ignore_errors=True)
        self.log(f"done: {len(self.violations)} violation(s), evaluations={self.evaluations}, states={self.states}, wall={wall:.1f}s")
        return 1 if self.violations else 0
