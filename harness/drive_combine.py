"""C17 driver: per-agent domain / problem files in a scratch directory, combined by the multi-agent converters
under a chosen discovery order; unrelated domains parsed before and after; fresh Domain() observed through the
digest of every live domain."""
import os
import shutil
from pathlib import PosixPath

import layout
import pylib
import sexp_reader
from drive_core import domain_digest
from pddl_plus_parser.multi_agent import MultiAgentDomainsConverter, MultiAgentProblemsConverter

UNRELATED_TYPED = "(define (domain other) (:requirements :typing) (:types zz - object yy - zz) (:predicates (u ?a - yy))" \
                  " (:action n :parameters (?a - yy) :precondition (and (u ?a)) :effect (and (not (u ?a)))))"
UNRELATED_UNTYPED = "(define (domain plain) (:requirements :strips) (:predicates (v ?a) (w))" \
                    " (:action m :parameters (?a) :precondition (and (v ?a)) :effect (and (w))))"


def ordered_dir(path, names_in_order):
    """a directory path whose glob() yields the matching files in the given order: a test double for the file
    system's enumeration order"""
    class OrderedDir(PosixPath):
        def glob(self, pattern, **kw):
            found = {p.name: p for p in super().glob(pattern, **kw)}
            for n in names_in_order:
                if n in found:
                    yield found.pop(n)
            for n in sorted(found):
                yield found[n]
    return OrderedDir(path)


def parse_event(ev, h, text, tree=None):
    tree = tree or sexp_reader.read(text)
    try:
        dom = pylib.parse_domain_text(text)
        ev.append({"c": "ParseDomain", "h": h, "tree": tree, "out": {"vocab": pylib.vocab(dom), "digest": domain_digest(dom)}})
        return dom
    except Exception as e:  # noqa: BLE001
        ev.append({"c": "ParseDomain", "h": h, "tree": tree, "out": {"exc": pylib.exc_name(e)}})
        return None


def run_shipped(case):
    """a per-agent directory shipped with the repository's tests, combined in sorted or reversed discovery order"""
    import glob
    ev = []
    d = case["dir"]
    files = sorted(os.path.basename(f) for f in glob.glob(d + "/domain-*.pddl"))
    if case["reverse"]:
        files.reverse()
    hist = {"id": case["id"], "ev": ev, "text": f"{os.path.basename(d)} order {files}"}
    live = {"ub": parse_event(ev, "ub", UNRELATED_TYPED)}
    for i, f in enumerate(files):
        text = open(os.path.join(d, f)).read()
        live[f"dp{i}"] = parse_event(ev, f"dp{i}", text)
        if live[f"dp{i}"] is None:
            return hist
    try:
        comb = MultiAgentDomainsConverter(ordered_dir(d, files)).locate_domains()
        live["dc"] = comb
        ev.append({"c": "CombineDomains", "parts": [f"dp{i}" for i in range(len(files))], "dummy": False, "h": "dc",
                   "out": {"vocab": pylib.vocab(comb), "digest": domain_digest(comb)}})
    except Exception as e:  # noqa: BLE001
        ev.append({"c": "CombineDomains", "parts": [f"dp{i}" for i in range(len(files))], "dummy": False, "h": "dc",
                   "out": {"exc": pylib.exc_name(e)}})
    live["ua"] = parse_event(ev, "ua", UNRELATED_UNTYPED)
    snap(ev, live)
    return hist


def run_case(case, opts):
    if case.get("dir"):
        return run_shipped(case)
    ev = []
    hist = {"id": case["id"], "ev": ev, "text": f"{len(case['domains'])} domain parts order {case['dorder']}, "
                                                f"{len(case['problems'])} problem parts order {case['porder']}, dummy={case['dummy']}"}
    live = {}
    live["ub"] = parse_event(ev, "ub", UNRELATED_TYPED)
    wd = pylib.scratch_dir() / f"combine{case['id']}"
    if wd.exists():
        shutil.rmtree(wd)
    wd.mkdir(parents=True)
    try:
        names = []
        for i, t in enumerate(case["domains"]):
            text = layout.pretty(t)
            (wd / f"domain-ag{i}.pddl").write_text(text)
            names.append(f"domain-ag{i}.pddl")
            live[f"dp{i}"] = parse_event(ev, f"dp{i}", text, t)
            if live[f"dp{i}"] is None:
                return hist
        order = [names[i] for i in case["dorder"]]
        conv = MultiAgentDomainsConverter(ordered_dir(wd, order))
        try:
            comb = conv.locate_domains(add_dummy_actions=case["dummy"])
            live["dc"] = comb
            ev.append({"c": "CombineDomains", "parts": [f"dp{i}" for i in case["dorder"]], "dummy": case["dummy"], "h": "dc",
                       "out": {"vocab": pylib.vocab(comb), "digest": domain_digest(comb)}})
        except Exception as e:  # noqa: BLE001
            ev.append({"c": "CombineDomains", "parts": [f"dp{i}" for i in case["dorder"]], "dummy": case["dummy"], "h": "dc",
                       "out": {"exc": pylib.exc_name(e)}})
            return hist
        # the same converter object asked again with the other setting of the dummy switch: a combination of its
        # own, and the one returned before keeps its value (the snapshot below compares it)
        try:
            comb2 = conv.locate_domains(add_dummy_actions=not case["dummy"])
            live["dc2"] = comb2
            ev.append({"c": "CombineDomains", "parts": [f"dp{i}" for i in case["dorder"]], "dummy": not case["dummy"], "h": "dc2",
                       "out": {"vocab": pylib.vocab(comb2), "digest": domain_digest(comb2)}})
        except Exception as e:  # noqa: BLE001
            ev.append({"c": "CombineDomains", "parts": [f"dp{i}" for i in case["dorder"]], "dummy": not case["dummy"], "h": "dc2",
                       "out": {"exc": pylib.exc_name(e)}})
        live["ua"] = parse_event(ev, "ua", UNRELATED_UNTYPED)
        snap(ev, live)
        # export the combination (same converter object) and parse it back (the combined problem is parsed against that file)
        try:
            path = conv.export_combined_domain(add_dummy_actions=case["dummy"], output_folder=wd)
            text = open(path).read()
            dom2 = parse_event(ev, "dx", text)
        except Exception as e:  # noqa: BLE001
            ev.append({"c": "ExportDomain", "d": "dc", "h": "dx", "u": "none", "states": [], "out": {"exc": pylib.exc_name(e)}})
            return hist
        if dom2 is None:
            return hist
        live["dx"] = dom2
        # the exported text must denote the combination: same vocabulary (ExportDomain compares text and re-parse)
        ev.append({"c": "ExportDomain", "d": "dc", "h": "dx2", "u": "none", "states": [], "calls": [["#none", []]],
                   "out": {"tree": sexp_reader.read(text), "vocab2": pylib.vocab(dom2), "digest2": domain_digest(dom2)}})
        pnames = []
        for i, t in enumerate(case["problems"]):
            text_p = layout.pretty(t)
            (wd / f"prob-ag{i}.pddl").write_text(text_p)
            pnames.append(f"prob-ag{i}.pddl")
            out, _ = pylib.observe_problem(text_p, dom2)
            ev.append({"c": "ParseProblem", "h": f"pp{i}", "d": "dx", "tree": t, "out": out})
            if "exc" in out:
                return hist
        porder = [pnames[i] for i in case["porder"]]
        try:
            cp = MultiAgentProblemsConverter(ordered_dir(wd, porder), "prob").combine_problems(path)
            proj = pylib.project_problem(cp)
            lits = [str(x) for x in proj["goal_lits"]]
            cmps = [layout.flat(x) for x in proj["goal_cmps"]]
            init_facts = [p.untyped_representation for s in cp.initial_state_predicates.values() for p in s]
            proj["dups"] = (len(lits) - len(set(lits))) + (len(cmps) - len(set(cmps))) + (len(init_facts) - len(set(init_facts)))
            ev.append({"c": "CombineProblems", "parts": [f"pp{i}" for i in case["porder"]], "out": {"prob": proj}})
        except Exception as e:  # noqa: BLE001
            ev.append({"c": "CombineProblems", "parts": [f"pp{i}" for i in case["porder"]], "out": {"exc": pylib.exc_name(e)}})
        snap(ev, live)
    finally:
        shutil.rmtree(wd, ignore_errors=True)
    return hist


def snap(ev, live):
    ev.append({"c": "Snap", "snap": {h: domain_digest(d) for h, d in live.items() if d is not None}})
