"""driver worker: python worker.py <driver> <cases.ndjson> <out.ndjson> <opts json>
runs in its own process (own PYTHONHASHSEED) and writes one history per case"""
import json
import sys


def add_exact(tree):
    """number tokens of an input tree get the canonical text of the double they denote ("x"), so that
    the specification can require values to be preserved exactly"""
    from fractions import Fraction
    if tree["t"] == "l":
        for c in tree["c"]:
            add_exact(c)
    elif tree["t"] == "n" and "x" not in tree:
        if tree.get("txt"):
            tree["x"] = repr(float(tree["txt"]))
        else:
            import layout
            tree["x"] = repr(float(layout.num_text(tree["v"])))


def main():
    driver, fin, fout, opts = sys.argv[1], sys.argv[2], sys.argv[3], json.loads(sys.argv[4])
    if driver == "core":
        import drive_core
        fn = lambda c: drive_core.run_case(c, c.get("layout"), snaps=opts.get("snaps", True))  # noqa: E731
    elif driver == "exh":
        import drive_exh
        uni = drive_exh.Universe(opts["nvals"], True)
        import random

        def fn(c):
            sample = None
            if opts.get("sample"):
                rng = random.Random(opts.get("seed", 0) * 7919 + c["id"])
                sample = sorted(rng.sample(range(len(uni.specs)), opts["sample"]))
            return drive_exh.run_case(c, uni, c.get("mode") or opts["mode"], c.get("layout"), sample)
    else:
        mod = __import__("drive_" + driver)
        fn = lambda c: mod.run_case(c, opts)  # noqa: E731
    with open(fin) as f, open(fout, "w") as g:
        for line in f:
            h = fn(json.loads(line))
            for e in h.get("ev", []):
                if isinstance(e, dict) and "tree" in e:
                    add_exact(e["tree"])
            g.write(json.dumps(h) + "\n")


if __name__ == "__main__":
    main()
