"""C13: simplified numeric conditions are valid PDDL and mean the same as the originals."""
import json

import gen_simplify


def run(ctx):
    quick = ctx.quick
    ctx.mc("MC_Numeric", {}, ["StackRefines", "OperandOrder", "NestedMinus"], workers=8)
    cases = [gen_simplify.gen_case(ctx.seed, 140000 + i) for i in range(500 if quick else 10000)]
    tf = ctx.drive("simplify", cases)
    ctx.validate(tf, {c["id"]: c for c in cases}, driver="simplify")
    shapes, exact = {}, 0
    for line in open(tf):
        h = json.loads(line)
        shapes[h["shape"]] = shapes.get(h["shape"], 0) + 1
        for e in h["ev"]:
            if e["c"] == "Simplify" and "texts" in e["out"]:
                exact += 1 if e["exact"] else 0
                ctx.nontrivial.add((h["text"], e["digits"], e["how"]))
                if len(ctx.samples) < 3:
                    ctx.sample({"conditions": " ".join(h["text"].split()), "digits": e["digits"], "via": e["how"], "printed": e["out"]["texts"]})
    ctx.extra["cases_by_shape"] = shapes
    ctx.extra["judged_with_zero_slack"] = exact
    ctx.rule = ("random numeric conditions: polynomials up to degree 3 over up to 4 fluents (names with dashes, underscores, "
                "digits, names that squeeze to the same identifier or to a sympy name), rational forms c/x, x/c, 1/(x*x), "
                "coefficients that are integers, short decimals and near-integers (k +/- 10^-5), all comparison operators, "
                "sets of 2-3 conditions with 0-1 equalities usable for elimination, decimal digits 0..6, printed through "
                "Precondition.print(should_simplify=True) or NumericalExpressionTree.simplify_complex_numerical_pddl_expression. "
                "TLC reads source and output with the same grammar, checks binary + - * / only, that the library re-reads its "
                "own text, and equality of truth on the grid {-2,-1,0,1,3,1/2,5/2}^k with zero slack when every product of "
                "coefficients is representable at the requested digits, else outside a band of 200*10^-digits around the "
                "boundary. distinct_nontrivial = distinct (conditions, digits, entry point) simplified")
    ctx.assumptions += ["grid-bounded equivalence, not a symbolic proof (DESIGN 10)",
                        "conditions in which a fluent cancels (x - x) or two like monomials occur are not generated"]
