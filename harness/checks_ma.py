"""C15 (sequential -> joint plan conversion) and C16 (joint actions)."""
import json

import gen_ma


def _run(ctx, weights, n_quick, n_thorough, base):
    quick = ctx.quick
    hashseeds = (0, 1, 2) if quick else tuple(range(16))
    cases = []
    for i in range(n_quick if quick else n_thorough):
        c = gen_ma.gen_case(ctx.seed, base + i, n_ops=10)
        c["weights"] = weights
        cases.append(c)
    tf = ctx.drive("ma", cases, hashseeds=hashseeds)
    ctx.validate(tf, {c["id"]: c for c in cases}, driver="ma")
    return tf


def run_c15(ctx):
    quick = ctx.quick
    ctx.mc("MC_Convert", {"MaxLen": 5 if quick else 7}, ["GreedyIsValid", "JointOrderFree"], timeout=3600)
    ctx.mc("MC_Convert", {"MaxLen": 4}, ["BadNoPreDel"], expect_violation=True)
    tf = _run(ctx, [1, 1, 6], 150, 3000, 110000)
    n = grouped = 0
    for line in open(tf):
        h = json.loads(line)
        for e in h["ev"]:
            if e["c"] == "ConvertPlan":
                n += 1
                j = e["out"].get("joint", [])
                if any(sum(1 for m in step if m[0] != "nop") > 1 for step in j):
                    grouped += 1
                    ctx.nontrivial.add(json.dumps([e["plan"], e["agents"], e["cc"]]))
                if len(ctx.samples) < 2 and len(j) > 1:
                    ctx.sample({"sequential": e["plan"], "agents": e["agents"], "concurrency_constraint": e["cc"], "joint": j})
    ctx.extra["conversions"] = n
    ctx.extra["conversions_with_a_multi_member_step"] = grouped
    ctx.rule = ("M: every valid sequential plan up to the length bound over a two-agent micro-domain (shared item, shared "
                "counter): greedy packing with the semantic interference test satisfies ValidConversion, the variant without "
                "the 'deletes a member's precondition' test is refuted; V: random valid plans (walks of applicable actions, "
                "2-8 steps, 2-4 agents) over generated STRIPS+numeric multi-agent domains, with and without the concurrency "
                "constraint; TLC checks the five clauses of MultiAgent!ValidConversion on whatever joint plan is returned "
                "(final states computed by the specification). distinct_nontrivial = distinct conversions whose result has a "
                "step with more than one member")


def run_c16(ctx):
    quick = ctx.quick
    ctx.mc("MC_Convert", {"MaxLen": 5 if quick else 6}, ["JointOrderFree"], timeout=3600)
    tf = _run(ctx, [6, 3, 0], 150, 3000, 120000)
    n = multi = refused = 0
    for line in open(tf):
        h = json.loads(line)
        for e in h["ev"]:
            if e["c"] == "ApplyJoint":
                n += 1
                k = sum(1 for m in e["members"] if m[0] != "nop")
                if "exc" in e["out"]:
                    refused += 1
                if k > 1:
                    multi += 1
                    ctx.nontrivial.add(json.dumps([h["id"], e["s"], sorted(map(json.dumps, e["members"]))]))
                if len(ctx.samples) < 2 and k > 1:
                    ctx.sample({"members": e["members"], "allow": e["allow"], "outcome": "refused" if "exc" in e["out"] else "state"})
    ctx.extra["joint_applications"] = n
    ctx.extra["with_several_members"] = multi
    ctx.extra["refused"] = refused
    ctx.rule = ("joint actions of 1-4 members over generated multi-agent domains applied from initial and reached states, each "
                "multiset of members in three arrangements (permuted, nop padding added / dropped at random positions), some "
                "with an inapplicable member, with and without the allow switch; joint plans of 1-4 steps through "
                "MultiAgentTrajectoryExporter (parse_plan, export, re-parse with executing agents). TLC: when all members are "
                "applicable and commute (every permutation executable, same result) the result must be the sequential "
                "application; an inapplicable member must be refused unless allowed; steps chain; exported text and parsed "
                "observation equal the run. distinct_nontrivial = distinct (state, member multiset) with >= 2 members")
