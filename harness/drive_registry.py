"""Replay of the behaviours of spec/MC_Registry.tla: several domains over the same type names are parsed in
one process, in the order TLC chose; each `Query` asks an earlier or later domain for its whole subtype
matrix (and hierarchy graph), which TraceApi judges against that domain's own declarations."""
import layout
import pylib
from drive_core import domain_digest
from drive_types import domain_tree
from gen_core import S


def run_case(case, opts):
    ev = []
    hist = {"id": case["id"], "ev": ev, "text": " ".join(c["c"] + ":" + (c.get("h") or c.get("d")) for c in case["calls"])}
    doms = {}
    for c in case["calls"]:
        if c["c"] == "Parse":
            toks = []
            for child, parent in c["decl"]:
                toks += [S(child), S("-"), S(parent)]
            tree = domain_tree(toks, sorted(ch for ch, _ in c["decl"]))
            try:
                doms[c["h"]] = pylib.parse_domain_text(layout.pretty(tree))
                ev.append({"c": "ParseDomain", "h": c["h"], "tree": tree,
                           "out": {"vocab": pylib.vocab(doms[c["h"]]), "digest": domain_digest(doms[c["h"]])}})
            except Exception as e:  # noqa: BLE001
                ev.append({"c": "ParseDomain", "h": c["h"], "tree": tree, "out": {"exc": pylib.exc_name(e)}})
                return hist
        else:
            d = doms[c["d"]]
            ev.append({"c": "TypeMatrix", "d": c["d"], "rows": pylib.subtype_matrix(d)})
            edges, nodes = pylib.type_graph(d)
            ev.append({"c": "TypeGraph", "d": c["d"], "edges": edges, "nodes": nodes})
        ev.append({"c": "Snap", "snap": {h: domain_digest(d) for h, d in doms.items()}})
    return hist
