"""Fixture driver: the PDDL files shipped with the repository's tests.
case kinds:
  {"kind":"domain","path":...}                     parse, compare the vocabulary with the spec's reading
  {"kind":"problem","domain":path,"path":...}      parse the problem over its domain
"""
import pylib
import sexp_reader
from drive_core import domain_digest
from pylib import DomainParser, ProblemParser


def run_case(case, opts):
    ev = []
    hist = {"id": case["id"], "ev": ev, "text": case["path"]}
    dpath = case["path"] if case["kind"] == "domain" else case["domain"]
    dtree = sexp_reader.read_file(dpath)
    try:
        dom = DomainParser(dpath).parse_domain()
        ev.append({"c": "ParseDomain", "h": "d", "tree": dtree, "out": {"vocab": pylib.vocab(dom), "digest": domain_digest(dom)}})
    except Exception as e:  # noqa: BLE001
        ev.append({"c": "ParseDomain", "h": "d", "tree": dtree, "out": {"exc": pylib.exc_name(e)}})
        return hist
    if case["kind"] == "problem":
        ptree = sexp_reader.read_file(case["path"])
        try:
            prob = ProblemParser(case["path"], dom).parse_problem()
            out = {"prob": pylib.project_problem(prob)}
        except Exception as e:  # noqa: BLE001
            out, prob = {"exc": pylib.exc_name(e)}, None
        ev.append({"c": "ParseProblem", "h": "p", "d": "d", "tree": ptree, "out": out})
        if prob is not None:
            st = pylib.State(prob.initial_state_predicates, prob.initial_state_fluents, is_init=True)
            ev.append({"c": "InitialState", "h": "s0", "p": "p", "out": {"st": pylib.project_state(st)}})
    ev.append({"c": "Snap", "snap": {"d": domain_digest(dom)}})
    return hist
