"""C02 (applicability) and C03 (successor): model checking of the semantic core, replay of
the TLC-enumerated family into the library, trace validation of random larger cases."""
import json
import random

import gen_core


def _count_nontrivial_pre(trace_file, ctx):
    """distinct preconditions whose observed answers include both True and False"""
    for line in open(trace_file):
        h = json.loads(line)
        vals = set()
        for e in h["ev"]:
            if e["c"] == "IsApplicable" and "val" in e["out"]:
                vals.add(e["out"]["val"])
            if e["c"] == "AppTable":
                vals |= {r["out"].get("val") for r in e["rows"]}
        if True in vals and False in vals:
            t = h.get("text", "")
            ctx.nontrivial.add(t[t.find(":precondition"):t.find(":effect")])


def _count_nontrivial_eff(trace_file, ctx):
    """distinct effect bodies for which some application changed the state"""
    for line in open(trace_file):
        h = json.loads(line)
        st = {e["h"]: e["st"] for e in h["ev"] if e["c"] == "NewState"}
        changed = False
        for e in h["ev"]:
            rows = e["rows"] if e["c"] == "ApplyTable" else ([e] if e["c"] == "Apply" else [])
            for r in rows:
                if "st" in r["out"] and r["s"] in st:
                    if sorted(map(json.dumps, r["out"]["st"]["facts"])) != sorted(map(json.dumps, st[r["s"]]["facts"])) \
                            or sorted(map(json.dumps, r["out"]["st"]["fl"])) != sorted(map(json.dumps, st[r["s"]]["fl"])):
                        changed = True
                        break
            if changed:
                break
        if changed:
            t = h.get("text", "")
            ctx.nontrivial.add(t[t.find(":effect"):])


def run_core(ctx, mode):
    quick = ctx.quick
    rng = random.Random(ctx.seed)
    hashseeds = (0, 1, 2) if quick else tuple(range(16))
    # ---------------------------------------------------------------- (M) model checking
    if mode == "pre":
        ctx.mc("MC_Semantics", {"Mode": '"pre"', "Depth": 1 if quick else 2, "NVals": 2}, ["FoldRefines", "DeMorgan"],
               timeout=3000)
        ctx.mc("MC_Semantics", {"Mode": '"pre"', "Depth": 2, "NVals": 2}, ["BadFoldInit"], expect_violation=True)
        ctx.mc("MC_Semantics", {"Mode": '"pre"', "Depth": 2, "NVals": 2}, ["BadForallExact"], expect_violation=True)
        if not quick:
            ctx.mc("MC_Semantics", {"Mode": '"pre"', "Depth": 2, "NVals": 2}, ["BadForallDropped"], expect_violation=True)
    else:
        ctx.mc("MC_Semantics", {"Mode": '"eff"', "Depth": 1 if quick else 2, "NVals": 2}, ["ApplyRefines", "Frame"], timeout=3000)
        if not quick:
            # three fluent values at depth 1 (depth 2 with three values is 10 M states / 17 min on 16 idle cores)
            ctx.mc("MC_Semantics", {"Mode": '"eff"', "Depth": 1, "NVals": 3}, ["ApplyRefines", "Frame"], timeout=3000,
                   label="MC_Semantics:eff:d1v3")
        ctx.mc("MC_Semantics", {"Mode": '"eff"', "Depth": 1, "NVals": 2}, ["BadReadNew"], expect_violation=True)
        ctx.mc("MC_Semantics", {"Mode": '"eff"', "Depth": 1, "NVals": 2}, ["BadWhenAlways"], expect_violation=True)
    # ---------------------------------------------------------------- (G) spec -> code
    gen_file = ctx.work / "gen_cases.ndjson"
    ctx.gen("Gen_Core", {"Mode": f'"{mode}"', "Depth": 2, "NVals": 2}, gen_file)
    cases = [json.loads(x) for x in open(gen_file)]
    if quick:
        cases = rng.sample(cases, min(len(cases), 90))
    elif mode == "pre":
        cases = rng.sample(cases, min(len(cases), 2500))
    for i, c in enumerate(cases):
        if i % 3 == 1:
            c["layout"] = ctx.seed * 1000 + i
    opts = {"mode": mode, "nvals": 2, "sample": 48 if quick else 128, "seed": ctx.seed}
    tf = ctx.drive("exh", cases, hashseeds=hashseeds, opts=opts)
    ctx.validate(tf, {c["id"]: c for c in cases}, driver="exh", opts=opts)
    (_count_nontrivial_pre if mode == "pre" else _count_nontrivial_eff)(tf, ctx)
    ctx.sample({"engine": "G", "case": cases[0]["id"], "text": json.loads(open(tf).readline()).get("text", "")[-400:]})
    ctx.log(f"replayed {len(cases)} TLC-generated programs x {opts['sample']} states x 4 bindings")
    # ---------------------------------------------------------------- (V) code -> spec, random scope
    n = 250 if quick else 4000
    rc = []
    for i in range(n):
        c = gen_core.gen_case(ctx.seed, i, n_states=4, n_calls=3, with_eqonly=(i % 5 == 4))
        if i % 2 == 1:
            c["layout"] = ctx.seed * 100000 + i
        if i % 4 >= 2:
            c["reuse_op"] = True        # one Operator object per call for all the states of the case
        if mode == "pre" and i % 3 == 0:
            # editing the precondition through the public mutators (add_condition / remove_condition) and a
            # shallow copy of the domain: the edited action must behave as the edited formula
            c["edit"] = gen_core.edit_literal(rng, _params_of(c["tree"]), c["tree"])
        rc.append(c)
    if mode == "pre":
        # preconditions made of several (in)equalities between the parameters, calls with repeated objects
        rc += [gen_core.gen_eq_case(ctx.seed, 60000 + i) for i in range(60 if quick else 1000)]
    tf2 = ctx.drive("core", rc, hashseeds=hashseeds, opts={"snaps": True})
    ctx.validate(tf2, {c["id"]: c for c in rc}, driver="core", opts={"snaps": True})
    (_count_nontrivial_pre if mode == "pre" else _count_nontrivial_eff)(tf2, ctx)
    # chained histories: successors of successors over multi-action typed domains (facts added by one
    # action are tested / deleted by another with differently typed parameters)
    import gen_hist
    hc = [gen_hist.gen_case(ctx.seed, 40000 + i, n_ops=16) for i in range(120 if quick else 2500)]
    for c in hc:
        c["weights"] = "chain"
    tf3 = ctx.drive("hist", hc, hashseeds=hashseeds)
    ctx.validate(tf3, {c["id"]: c for c in hc}, driver="hist")
    # comparisons whose sides are closer than the tolerance without being equal: the library runs with
    # EPSILON=0.25, the states sit on a 1/8 grid, the spec is instantiated with the same tolerance
    tc = [gen_core.jitter_states(rng, gen_core.gen_case(ctx.seed, 70000 + i, n_states=4, n_calls=3))
          for i in range(100 if quick else 1500)]
    tf4 = ctx.drive("core", tc, hashseeds=hashseeds, opts={"snaps": True}, env={"EPSILON": "0.25"})
    ctx.validate(tf4, {c["id"]: c for c in tc}, driver="core", opts={"snaps": True}, eps="EpsQuarter")
    h = json.loads(open(tf2).readline())
    ctx.sample({"engine": "V", "history_id": h["id"], "text": h.get("text", "")[-500:],
                "events": [e["c"] for e in h["ev"]][:12]})
    ctx.exhaustive = False
    ctx.rule = (
        "M: TLC enumerates every program of spec/CoreFamily (bounded family) x every state of a 2-object typed universe x "
        "every binding; G: those programs are rendered by the spec, replayed into the library over sampled states x all 4 "
        "bindings and the recorded calls judged by TLC (TraceApi); V: random depth<=3 programs over 4 typed objects with "
        "random layouts, judged the same way. distinct_nontrivial = "
        + ("distinct preconditions whose observed answers include both true and false"
           if mode == "pre" else "distinct effect bodies for which some observed application changed the state"))
    ctx.assumptions += [
        "trusted base: harness/sexp_reader.py, layout.py, pylib.py projection (public attributes, serialize() text)",
        "floats are snapped to rationals with denominator <= 10^4; generated values are dyadic so this is exact",
        "regions the property leaves open (undefined fluent read, comparison exactly one tolerance apart, inconsistent "
        "simultaneous effects, division by zero) admit any outcome",
    ]


def run_c20(ctx):
    quick = ctx.quick
    hashseeds = (0, 1, 2) if quick else tuple(range(16))
    ctx.mc("MC_Grammar", {"Mode": '"pre"', "Depth": 1, "NVals": 2}, ["Classified", "ReadBack"], label="MC_Grammar:pre")
    # (G) the TLC-enumerated family: grounding of every program under all 4 bindings of the 2-object universe
    gen_file = ctx.work / "gen_cases.ndjson"
    rng = random.Random(ctx.seed)
    cases = []
    for mode in ("pre", "eff"):
        ctx.gen("Gen_Core", {"Mode": f'"{mode}"', "Depth": 2, "NVals": 2}, gen_file)
        cs = [json.loads(x) for x in open(gen_file)]
        cs = rng.sample(cs, min(len(cs), 150 if quick else 1500))
        for c in cs:
            c["id"] = len(cases) + 1
            c["objs"] = [["a", "t2"], ["b", "t1"]]
            c["states"] = [{"facts": [], "fl": [["f", ["a"], [0, 1]], ["f", ["b"], [0, 1]], ["g", [], [0, 1]]]}]
            c["calls"] = [{"act": "act", "args": [x, y], "s": 0, "mode": "ground"} for x in ("a", "b") for y in ("a", "b")]
            cases.append(c)
    n_gen = len(cases)
    for i in range(300 if quick else 6000):
        cases.append(gen_core.gen_case(ctx.seed, 80000 + i, n_states=1, n_calls=3, ground_only=True))
    # several actions of one domain grounded one after the other: the same literal text, e.g. (p ?x), under
    # parameters of different types (an action over a narrow type next to one over a broad type)
    import gen_hist
    from drive_hist import type_correct_args
    for i in range(80 if quick else 1500):
        hc = gen_hist.gen_case(ctx.seed, 85000 + i)  # (case content seed)
        crng = random.Random(ctx.seed * 31 + i)
        calls = []
        for _ in range(2):
            for name, params in hc["acts"]:
                calls.append({"act": name, "args": type_correct_args(crng, params, hc["objs"]), "s": 0, "mode": "ground"})
        crng.shuffle(calls)
        cases.append({"id": 700000 + i, "tree": hc["dom"], "objs": hc["objs"],
                      "states": [gen_core.random_state(crng, hc["objs"])], "calls": calls})
    # every other random case: the report is read from an Operator that has already been queried and applied (to a
    # state without any fact, then to the case's state) - what is reported for the call does not depend on that
    for c in cases[n_gen:]:
        if c["id"] % 2 == 0:
            c["use_first"] = True
    tf = ctx.drive("core", cases, hashseeds=hashseeds, opts={"snaps": False})
    ctx.validate(tf, {c["id"]: c for c in cases}, driver="core", opts={"snaps": False})
    n = 0
    for line in open(tf):
        h = json.loads(line)
        for e in h["ev"]:
            if e["c"] == "Ground" and "exc" not in e["out"]:
                n += 1
                if e["out"]["pre_lits"] or len(e["out"]["groups"]) > 1:
                    ctx.nontrivial.add((h.get("text", "")[-300:], tuple(e["args"])))
                if len(ctx.samples) < 2:
                    ctx.sample({"call": [e["act"], e["args"]], "observed": {k: v for k, v in e["out"].items() if k != "pre_nums"}})
    ctx.extra["ground_events"] = n
    ctx.rule = (f"G: {n_gen} programs of the TLC-enumerated family under all 4 bindings of the two-object universe; V: random "
                "actions over 4 typed objects + a constant with random type-correct calls (repeated objects, constants in any "
                "position, arguments of subtypes). For each call the iteration over grounded_preconditions, every effect "
                "group's grounded_discrete_effects / grounded_numeric_effects (as PDDL text re-read) and typed_action_call are "
                "recorded and TLC compares them with position-wise substitution (Syntax!GroundLit / GroundExpr / GroundGroup). "
                "distinct_nontrivial = distinct (action, call) pairs with at least one grounded literal or conditional group")


def run_c18(ctx):
    quick = ctx.quick
    hashseeds = (0, 1, 2) if quick else tuple(range(16))
    rng = random.Random(ctx.seed)
    ctx.mc("MC_Rename", {"Mode": '"pre"', "Depth": 1, "NVals": 2}, ["SameShape", "SameBehaviour"], label="MC_Rename:pre")
    ctx.mc("MC_Rename", {"Mode": '"eff"', "Depth": 1 if quick else 2, "NVals": 2}, ["SameShape", "SameBehaviour"],
           label="MC_Rename:eff", timeout=3600)
    ctx.mc("MC_Rename", {"Mode": '"pre"', "Depth": 1, "NVals": 2}, ["BadInPlace"], expect_violation=True)
    cases = []
    for i in range(300 if quick else 6000):
        # no bound variable named like a parameter here: renaming onto / away from such a name is variable
        # capture, which the property leaves aside (see the assumption below)
        c = gen_core.gen_case(ctx.seed, 90000 + i, n_states=3, n_calls=2)
        params = _params_of(c["tree"])
        c["rename"] = gen_core.rename_map(rng, params)
        c["ground"] = False
        cases.append(c)
    # a universal effect whose variable shadows a parameter, next to other universal effects in which that parameter
    # occurs free: renamed to fresh names only (a new name equal to a bound variable would be captured)
    k = 0
    want = 80 if quick else 1600
    while sum(1 for c in cases if c.get("shadow")) < want and k < want * 40:
        k += 1
        c = gen_core.gen_case(ctx.seed, 95000 + k, n_states=3, n_calls=2, with_shadow=True, shadow_p=0.5)
        params = _params_of(c["tree"])
        eff = c["tree"]["c"][-1]["c"][-1]
        foralls = [x for x in eff["c"] if x["t"] == "l" and x["c"] and x["c"][0].get("v") == "forall"]
        bound = [x["c"][1]["c"][0]["v"] for x in foralls]
        if len(foralls) < 2 or not any(b in [p for p, _ in params] for b in bound) or len(set(bound)) < 2:
            continue
        c["rename"] = gen_core.rename_map(rng, params, kinds=("fresh", "param_i"))
        c["ground"] = False
        c["shadow"] = True
        cases.append(c)
    # several (in)equalities between the parameters under permutations / chains of their names
    for i in range(100 if quick else 2000):
        c = gen_core.gen_eq_case(ctx.seed, 990000 + i)
        c["rename"] = gen_core.rename_map(rng, _params_of(c["tree"]), kinds=("perm", "perm", "chain"))
        c["ground"] = False
        cases.append(c)
    tf = ctx.drive("core", cases, hashseeds=hashseeds, opts={"snaps": False})
    ctx.validate(tf, {c["id"]: c for c in cases}, driver="core", opts={"snaps": False})
    kinds = {}
    for line in open(tf):
        h = json.loads(line)
        for e in h["ev"]:
            if e["c"] == "Rename":
                m = e["map"]
                overl = bool(set(m.values()) & set(m.keys()))
                kinds["overlapping" if overl else "fresh"] = kinds.get("overlapping" if overl else "fresh", 0) + 1
                if "sig" in e["out"]:
                    ctx.nontrivial.add((h.get("text", "")[-300:], json.dumps(m, sort_keys=True)))
                if len(ctx.samples) < 2:
                    ctx.sample({"map": m, "renamed_signature": e["out"].get("sig"), "action": h.get("text", "")[-300:]})
    ctx.extra["renamings_by_kind"] = kinds
    ctx.rule = ("M: every program of the bounded family as the body of act(?x ?y) x {identity, swap, fresh, chain, keep-one, "
                "?param_i} x every state and call: same shape and same behaviour (the in-place loop is refuted); V: random "
                "actions (or / forall / numeric conditions, when and forall-when effects, constants) parsed twice, one copy "
                "renamed by a random injective map (fresh / permutation / chain); applicability and successors of "
                "the renamed copy over random states and calls are judged against Rename!RenameAction of the spec's reading. "
                "distinct_nontrivial = distinct (action, map) pairs renamed")
    ctx.assumptions += ["new names never collide with quantified variables of the action (capture is outside the property)"]


def _params_of(tree):
    act = tree["c"][-1]["c"]
    for i, x in enumerate(act):
        if x.get("v") == ":parameters":
            toks = act[i + 1]["c"]
            return [[toks[j]["v"], toks[j + 2]["v"]] for j in range(0, len(toks), 3)]
    return []
