"""Independent character-level S-expression reader (trusted base, validated against Sexp.tla).

text -> tagged token tree, as JSON-able python values:
    {"t":"s","v":name}  {"t":"n","v":[num,den]}  {"t":"l","c":[...]}
Rules (module Sexp): ';' starts a comment that runs to the end of the line; letters are
lower-cased; '(' and ')' are self-delimiting; whitespace separates tokens; exactly one
balanced top-level form, nothing after it.
"""
import re
from fractions import Fraction

NUM_RE = re.compile(r"^[+-]?(\d+\.?\d*|\.\d+)([eE][+-]?\d+)?$")


class SexpError(Exception):
    pass


def tokens(text):
    out = []
    for line in re.split(r"\r\n|\n|\r", text):
        i = line.find(";")
        if i >= 0:
            line = line[:i]
        cur = ""
        for ch in line:
            if ch in "()":
                if cur:
                    out.append(cur)
                    cur = ""
                out.append(ch)
            elif ch in " \t\f\v":
                if cur:
                    out.append(cur)
                    cur = ""
            else:
                cur += ch.lower()
        if cur:
            out.append(cur)
    return out


def rat(tok):
    """value of a number token as the same small rational the state projection uses"""
    from numsnap import snap_or_approx
    return snap_or_approx(float(tok))


def tag(tok, numbers=True):
    if numbers and NUM_RE.match(tok):
        return {"t": "n", "v": rat(tok), "x": repr(float(tok))}
    return {"t": "s", "v": tok}


def tree_of_tokens(toks, numbers=True):
    """plain nested lists (strings / lists) and the tagged tree"""
    pos = 0

    def rd():
        nonlocal pos
        if pos >= len(toks):
            raise SexpError("unexpected end of input")
        t = toks[pos]
        pos += 1
        if t == "(":
            kids = []
            while True:
                if pos >= len(toks):
                    raise SexpError("unbalanced: missing )")
                if toks[pos] == ")":
                    pos += 1
                    return kids
                kids.append(rd())
        if t == ")":
            raise SexpError("unexpected )")
        return t

    v = rd()
    if pos != len(toks):
        raise SexpError("trailing input after the top-level form")
    return v


def tagged(plain, numbers=True):
    if isinstance(plain, list):
        return {"t": "l", "c": [tagged(x, numbers) for x in plain]}
    return tag(plain, numbers)


def read_plain(text):
    return tree_of_tokens(tokens(text))


def read(text, numbers=True):
    return tagged(read_plain(text), numbers)


def read_file(path, numbers=True):
    with open(path, "rt", encoding="utf-8") as f:
        return read(f.read(), numbers)
