"""C05 driver: parse a domain, then a problem text over it; record acceptance / content."""
import layout
import pylib
from drive_core import domain_digest


def run_case(case, opts):
    ev = []
    hist = {"id": case["id"], "ev": ev, "kind": case.get("kind")}
    dtext = layout.pretty(case["dom"])
    try:
        dom = pylib.parse_domain_text(dtext)
        ev.append({"c": "ParseDomain", "h": "d", "tree": case["dom"], "out": {"vocab": pylib.vocab(dom), "digest": domain_digest(dom)}})
    except Exception as e:  # noqa: BLE001
        ev.append({"c": "ParseDomain", "h": "d", "tree": case["dom"], "out": {"exc": pylib.exc_name(e)}})
        return hist
    seed = case.get("layout")
    ptext = case.get("text") or (layout.pretty(case["tree"]) if seed is None else layout.wild(case["tree"], seed))
    hist["text"] = ptext[:3000]
    out, prob = pylib.observe_problem(ptext, dom)
    ev.append({"c": "ParseProblem", "h": "p", "d": "d", "tree": case["tree"], "out": out})
    if prob is not None:
        try:
            st = pylib.State(prob.initial_state_predicates, prob.initial_state_fluents, is_init=True)
            ev.append({"c": "InitialState", "h": "s0", "p": "p", "out": {"st": pylib.project_state(st)}})
        except Exception as e:  # noqa: BLE001
            ev.append({"c": "InitialState", "h": "s0", "p": "p", "out": {"exc": pylib.exc_name(e)}})
    ev.append({"c": "Snap", "snap": {"d": domain_digest(dom)}})
    return hist
