"""Running TLC: model checking runs (stats, invariant violations) and sharded trace
validation (VERDICT lines).  Every invocation runs under a timeout; a TLC that dies, times
out or reports an evaluation error is a *machinery failure* (MachineryError -> exit 2),
never a verdict."""
import os
import re
import shutil
import subprocess
import time
from concurrent.futures import ThreadPoolExecutor
from pathlib import Path

SPEC_DIR = Path(__file__).resolve().parent.parent / "spec"
JARS = "/opt/veriftools/tla/tla2tools.jar:/opt/veriftools/tla/CommunityModules-deps.jar"


class MachineryError(Exception):
    pass


def java_cmd(module, workdir, workers=1, extra=(), heap="3g", deque=False, xss=None):
    cmd = ["java", "-XX:+UseParallelGC", f"-Xmx{heap}", f"-DTLA-Library={SPEC_DIR}"]
    if xss:
        cmd.append(f"-Xss{xss}")
    if deque:
        cmd.append("-Dtlc2.tool.queue.IStateQueue=StateDeque")
    cmd += ["-cp", JARS, "tlc2.TLC", "-workers", str(workers), "-metadir", str(Path(workdir) / "meta"),
            "-noGenerateSpecTE"]
    cmd += list(extra)
    cmd.append(module)
    return cmd


STATS_RE = re.compile(r"(\d+) states generated, (\d+) distinct states found")


def run_tlc(module_file, cfg_text, workdir, env=None, workers=1, timeout=600, extra=(), heap="3g", xss=None):
    """module_file: path of the .tla root module (copied next to its cfg in workdir).
    returns dict(out, states, distinct, rc, wall)"""
    workdir = Path(workdir)
    if workdir.exists():
        shutil.rmtree(workdir)
    workdir.mkdir(parents=True)
    module_file = Path(module_file)
    mod = module_file.stem
    shutil.copy(module_file, workdir / module_file.name)
    (workdir / f"{mod}.cfg").write_text(cfg_text)
    e = dict(os.environ)
    e.update(env or {})
    t0 = time.time()
    try:
        p = subprocess.run(java_cmd(mod, workdir, workers, extra, heap, xss=xss), cwd=workdir, env=e,
                           capture_output=True, text=True, timeout=timeout)
    except subprocess.TimeoutExpired:
        raise MachineryError(f"TLC timed out after {timeout}s on {mod}")
    out = p.stdout + p.stderr
    m = None
    for m in STATS_RE.finditer(out):
        pass
    res = {"out": out, "rc": p.returncode, "wall": time.time() - t0,
           "states": int(m.group(1)) if m else 0, "distinct": int(m.group(2)) if m else 0}
    shutil.rmtree(workdir / "meta", ignore_errors=True)
    return res


# TLC breaks a tuple over several lines once it is wider than the page
VERDICT_RE = re.compile(r'<<\s*"VERDICT",\s*(-?\d+),\s*"([^"]*)",\s*(\{[^}]*\}),\s*(\d+)\s*>>')


def parse_verdicts(out):
    """-> {id: (fail, known:set, events consumed)}"""
    res = {}
    for m in VERDICT_RE.finditer(out):
        known = set(re.findall(r'"([^"]+)"', m.group(3)))
        res[int(m.group(1))] = (m.group(2), known, int(m.group(4)))
    return res


def explain_blocks(out):
    """-> {id: text} for <<"EXPLAIN", id, ...>> blocks (multi-line, bracket matched)"""
    res = {}
    for m in re.finditer(r'<<\s*"EXPLAIN",\s*(-?\d+),', out):
        i = m.start()
        depth = 0
        j = i
        while j < len(out):
            if out.startswith("<<", j):
                depth += 1
                j += 2
                continue
            if out.startswith(">>", j):
                depth -= 1
                j += 2
                if depth == 0:
                    break
                continue
            j += 1
        res[int(m.group(1))] = out[i:j]
    return res


def trace_cfg(known_devs, eps="EpsDefault", invariants=()):
    devs = ", ".join(f'"{d}"' for d in sorted(known_devs))
    return ("SPECIFICATION Spec\n"
            f"CONSTANT Eps <- {eps}\n"
            f"CONSTANT KnownDevs = {{{devs}}}\n"
            "CHECK_DEADLOCK FALSE\n"
            "POSTCONDITION AllConsumed\n")


def sexp_cfg(known_devs):
    devs = ", ".join(f'"{d}"' for d in sorted(known_devs))
    return ("SPECIFICATION Spec\n"
            f"CONSTANT KnownDevs = {{{devs}}}\n"
            "CHECK_DEADLOCK FALSE\n"
            "POSTCONDITION AllConsumed\n")


def validate_traces(trace_file, workdir, known_devs, module="MCTrace", shards=1, timeout=900,
                    explain=False, eps="EpsDefault", n_hist=None, sparse=False):
    """Validate an ndjson file of histories; shard it over several JVMs.
    returns (verdicts: {id: (fail, known, consumed)}, explains, tlc_states, raw outputs)"""
    workdir = Path(workdir)
    workdir.mkdir(parents=True, exist_ok=True)
    lines = Path(trace_file).read_text().splitlines()
    lines = [x for x in lines if x.strip()]
    if not lines:
        return {}, {}, 0, []
    shards = max(1, min(shards, len(lines)))
    parts = [lines[i::shards] for i in range(shards)]

    def one(i):
        wd = workdir / f"shard{i}"
        if wd.exists():
            shutil.rmtree(wd)
        wd.mkdir(parents=True)
        tf = wd / "trace.ndjson"
        tf.write_text("\n".join(parts[i]) + "\n")
        env = {"TRACE_FILE": str(tf)}
        if explain:
            env["EXPLAIN"] = "1"
        cfg = sexp_cfg(known_devs) if sparse else trace_cfg(known_devs, eps)
        r = run_tlc(SPEC_DIR / f"{module}.tla", cfg, wd / "run", env=env, workers=1, timeout=timeout, xss="256m")
        return r, len(parts[i])

    with ThreadPoolExecutor(max_workers=shards) as ex:
        results = list(ex.map(one, range(shards)))
    verdicts, explains, states, outs = {}, {}, 0, []
    for r, n in results:
        outs.append(r["out"])
        v = parse_verdicts(r["out"])
        complete = "Model checking completed. No error has been found." in r["out"]
        if sparse:
            # only rejected / deviating records print a VERDICT; completeness comes from CONSUMED
            complete = complete and f'<<"CONSUMED", {n}>>' in r["out"]
        elif len(v) != n:
            complete = False
        if not complete:
            raise MachineryError("trace validation did not complete:\n" + r["out"][-3000:])
        verdicts.update(v)
        explains.update(explain_blocks(r["out"]))
        states += r["distinct"]
    return verdicts, explains, states, outs
