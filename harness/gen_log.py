"""Planner logs in Metric-FF layout and ENHSP plans (inputs only)."""
import random

HEADERS = ["", "ff: parsing domain file", "domain 'DEPOT' defined", " ... done.", "ff: parsing problem file",
           "problem 'DEPOTPROB7512' defined", "warning: numeric precondition. turning cost-minimizing relaxed plans OFF.",
           "ff: search configuration is Enforced Hill-Climbing, then A*epsilon with weight 5.",
           "Metric is ((1.00*[RF0](FUEL-COST)) - () + 0.00)", "COST MINIMIZATION DONE (WITHOUT cost-minimizing relaxed plans).",
           "Cueing down from goal distance:   18 into depth [1][2]", "                                  16            [1][2]",
           "                                   0            ", "Enforced Hill-climbing failed !", "switching to Best-first Search now.",
           "advancing to goal distance:   11", "                             10"]
TRAILERS = [[], ["plan cost: 54.000000"], ["", "time spent:    0.00 seconds instantiating 666 easy, 0 hard action templates",
            "               0.00 seconds reachability analysis, yielding 82 facts and 210 actions",
            "               0.01 seconds total time"], ["DONE"], ["", "", "finished"], ["plan cost: 12.000000", "", "ok thanks"],
            ["END OF PLAN"], [""], ["", ""]]
UNSOLVABLE = ["problem proven unsolvable.", "ff: goal can be simplified to FALSE. No plan will solve it",
              "best first search space empty! all increasers applied yet goal not fulfilled"]
NAMES = ["drive", "LIFT", "load-truck", "move_up", "a1", "UNLOAD", "fly2", "x", "pick-up", "Put_Down", "b-3_c"]
ARGS = ["truck0", "DEPOT0", "crate-1", "p_2", "o1", "A", "loc12", "hoist0", "b2", "x-y_z"]


def ff_log(rng, cid):
    n = rng.choice([0, 1, 2, 3, 9, 10, 11, 12, 99, 100, 101, 150])
    status = rng.choice(["plan", "plan", "plan", "unsolvable", "timeout"])
    crlf = rng.random() < 0.15
    lines = [rng.choice(HEADERS) for _ in range(rng.randint(0, 8))]
    if status == "plan":
        lines.append("ff: found legal plan as follows")
        lines += [""] * rng.choice([0, 0, 1, 2])
        width = rng.choice([4, 4, 3, 6])
        upper = rng.random() < 0.7
        for i in range(n):
            name = rng.choice(NAMES)
            args = [rng.choice(ARGS) for _ in range(rng.randint(0, 4))]
            call = " ".join([name] + args)
            call = call.upper() if upper else call
            prefix = "step " if i == 0 else "     "
            if rng.random() < 0.1:
                prefix = rng.choice(["", "\t", "  "]) if i else prefix
            lines.append(f"{prefix}{i:>{width}}: {call}" + (" " * rng.choice([0, 0, 0, 2])))
        tr = rng.choice(TRAILERS)
        lines += tr
    elif status == "unsolvable":
        lines.append(rng.choice(UNSOLVABLE))
        lines += rng.choice(TRAILERS)
    else:
        lines += [rng.choice(HEADERS) for _ in range(rng.randint(0, 3))]
    nl = "\r\n" if crlf else "\n"
    text = nl.join(lines)
    if rng.random() < 0.85 or (status == "plan" and n > 0 and lines and lines[-1].strip()):
        # Metric-FF terminates every line it prints; a log may end right after the last step
        text += nl
    return {"id": cid, "kind": "ff", "text": text}


def enhsp_plan(rng, cid):
    n = rng.choice([0, 1, 2, 10, 37])
    lines = []
    for _ in range(n):
        name = rng.choice(NAMES)
        args = [rng.choice(ARGS) for _ in range(rng.randint(0, 4))]
        lines.append("(" + " ".join([name] + args) + ")")
    return {"id": cid, "kind": "enhsp", "text": "\n".join(lines) + ("\n" if lines else "")}
