"""discovery of the PDDL files shipped with the repository's tests (inputs only)"""
import glob
import os
import re

TESTS = os.path.join(os.environ.get("VERIF_REPO", "/repo"), "tests")


def _head(f):
    return open(f, errors="ignore").read().lower()[:4000]


def is_domain(f):
    t = _head(f)
    return re.search(r"\(\s*domain\s", t) is not None and re.search(r"\(\s*problem\s", t) is None


def domains():
    return [f for f in sorted(glob.glob(TESTS + "/**/*.pddl", recursive=True)) if is_domain(f)]


def problems():
    """[(problem path, domain path)] paired by (:domain name) within the same directory tree"""
    doms = {}
    for d in domains():
        m = re.search(r"\(\s*domain\s+([^\s()]+)", _head(d))
        if m:
            doms.setdefault((os.path.dirname(d), m.group(1)), d)
            doms.setdefault((None, m.group(1)), d)
    out = []
    for f in sorted(glob.glob(TESTS + "/**/*.pddl", recursive=True)):
        if is_domain(f):
            continue
        m = re.search(r"\(\s*:domain\s+([^\s()]+)", _head(f))
        if not m:
            continue
        d = doms.get((os.path.dirname(f), m.group(1))) or doms.get((None, m.group(1)))
        if d:
            out.append((f, d))
    return out
