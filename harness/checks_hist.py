"""History-level properties: C04 (plans -> trajectories), C07 (purity), C10 (trajectory round
trip), C14 (states as values).  All use the PddlApi store: handles for states, operators and
runs, a snapshot of every live handle after each call."""
import json
import random

import gen_hist


def _stats(tf, ctx, kinds):
    for line in open(tf):
        h = json.loads(line)
        sig = tuple(e["c"] for e in h["ev"] if e["c"] in kinds)
        if len(sig) >= 2:
            ctx.nontrivial.add((h.get("text", "")[:200], sig))
        if len(ctx.samples) < 2:
            ctx.sample({"history_id": h["id"], "calls": [e["c"] for e in h["ev"]][:25]})


def plan_cases(ctx, maxlen, limit=None):
    gen_file = ctx.work / "gen_plan.ndjson"
    ctx.gen("Gen_Plan", {"MaxLen": maxlen}, gen_file)
    rows = [json.loads(x) for x in open(gen_file)]
    header, plans = rows[0], rows[1:]
    rng = random.Random(ctx.seed)
    if limit and len(plans) > limit:
        plans = rng.sample(plans, limit)
    cases = []
    for p in plans:
        for pi, prob in enumerate(header["probs"]):
            for allow in (False, True):
                cases.append({"id": len(cases) + 1, "dom": header["dom"], "prob": prob, "plan": p["plan"], "allow": allow})
    return cases


def random_hist(ctx, n, n_ops, base=0, **kw):
    cases = []
    for i in range(n):
        cases.append(gen_hist.gen_case(ctx.seed, base + i, n_ops=n_ops, **kw))
    return cases


def run_c04(ctx):
    quick = ctx.quick
    ctx.mc("MC_Plan", {"MaxLen": 4 if quick else 5}, ["RunRefines", "ChainHolds", "RefusalRule", "SwitchIrrelevant"])
    ctx.mc("MC_Plan", {"MaxLen": 3}, ["BadSwitchWaivesWhen"], expect_violation=True)
    ctx.mc("MC_Plan", {"MaxLen": 3}, ["BadNoRefusal"], expect_violation=True)
    cases = plan_cases(ctx, 3 if quick else 4, limit=None)
    tf = ctx.drive("plan", cases, hashseeds=(0, 1, 2) if quick else tuple(range(16)))
    ctx.validate(tf, {c["id"]: c for c in cases}, driver="plan")
    ctx.extra["tlc_generated_plans_replayed"] = len(cases)
    rc = random_hist(ctx, 120 if quick else 2500, 14)
    # plan after plan through one exporter object, for two problems of the domain with different objects
    pc = random_hist(ctx, 100 if quick else 2000, 10, base=50000)
    for c in pc:
        c["weights"] = "plans"
    rc += pc
    # direct Operator.apply with long-lived operator objects: refusal and successor for a state do not depend on the
    # states the operator met before (initial states that leave some fluents without a value included)
    oc = random_hist(ctx, 80 if quick else 1600, 16, base=56000, sparse_init=True)
    for c in oc:
        c["weights"] = "opreuse"
    rc += oc
    tf2 = ctx.drive("hist", rc, hashseeds=(0, 1, 2) if quick else tuple(range(16)))
    ctx.validate(tf2, {c["id"]: c for c in rc}, driver="hist")
    _stats(tf, ctx, {"RunPlan", "ExportTrajectory", "Apply"})
    _stats(tf2, ctx, {"RunPlan", "ExportTrajectory", "ParseTrajectory"})
    ctx.exhaustive = True
    ctx.rule = ("M: every plan up to the length bound over a two-action micro-domain (one conditional effect, one numeric "
                "fluent), valid and invalid steps at every position, 2 initial states, with and without the allow switch; G: "
                "every such plan replayed through TrajectoryExporter.parse_plan / export and directly through Operator.apply; "
                "V: random multi-action typed domains with plans of 1-6 steps chosen ~70% applicable. TLC recomputes the "
                "trajectory (Plan!Run) and judges every triplet, the chain, the refusal rule and the exported text. "
                "distinct_nontrivial = distinct (domain, call-kind sequence) histories with >= 2 plan-related calls")


def _api_machine(ctx, quick, sim_len, n_sim):
    """M: the heap-level machine of the object model with its two aliasing designs refuted;
    G: its behaviours (all of the short ones, simulated long ones) replayed into the library"""
    import api_machine
    hashseeds = (0, 1, 2) if quick else tuple(range(16))
    api_machine.model_check(ctx, 3 if quick else 4)
    dom, seqs = api_machine.behaviours(ctx, 2 if quick else 3)
    if len(seqs) > 15000:       # all behaviours of 3 calls are model checked; a seeded sample of them is replayed
        random.Random(ctx.seed).shuffle(seqs)
        seqs = seqs[:15000]
    cases = api_machine.cases_from(dom, seqs, 300000)
    dom, sims = api_machine.behaviours(ctx, sim_len, simulate=200, seed=ctx.seed + 1)
    cases += api_machine.cases_from(dom, sims[:n_sim], 400000)
    tf = api_machine.replay(ctx, cases, hashseeds)
    ctx.extra["machine_behaviours_replayed"] = len(cases)
    return tf


def _threads_model(ctx, quick):
    """spec/MC_Threads.tla: threads sharing one Domain, one step per access to the shared heap.  The library's design
    ("pure") keeps every result equal to the call made on its own in every interleaving; the two sharing designs are
    clean without pre-emption (SeqOnly) and refuted with a single pre-emption - the schedule family drive_threads
    forces on the library."""
    def consts(mode, seq, nt, nc, sw):
        return {"Mode": f'"{mode}"', "SeqOnly": "TRUE" if seq else "FALSE", "NThreads": nt, "NCalls": nc, "MaxSwitch": sw}
    nt, nc = (2, 2) if quick else (3, 2)
    ctx.mc("MC_Threads", consts("pure", False, nt, nc, 99), ["ThreadFaithful", "Restored", "MemoSound"],
           label=f"MC_Threads:pure:{nt}x{nc}")
    if not quick:
        ctx.mc("MC_Threads", consts("pure", False, 2, 3, 99), ["ThreadFaithful", "Restored", "MemoSound"],
               label="MC_Threads:pure:2x3")
    for mode in ("tempSig", "tornMemo"):
        ctx.mc("MC_Threads", consts(mode, True, 2, 2, 99), ["ThreadFaithful", "Restored", "MemoSound"],
               label=f"MC_Threads:{mode}:sequential")
        ctx.mc("MC_Threads", consts(mode, False, 2, 1, 1), ["ThreadFaithful"], expect_violation=True,
               label=f"MC_Threads:{mode}:onePreemption")
    ctx.mc("MC_Threads", consts("pure", False, 2, 1, 1), ["NeverPreempted"], expect_violation=True,
           label="MC_Threads:nonvacuous")


def run_c07(ctx):
    quick = ctx.quick
    ctx.mc("MC_Plan", {"MaxLen": 3}, ["RunRefines", "ChainHolds"])
    _api_machine(ctx, quick, 6, 400 if quick else 8000)
    _threads_model(ctx, quick)
    rc = random_hist(ctx, 200 if quick else 4000, 22, base=10000, sparse_init=True)
    for c in rc:
        c["groundrep"] = True
        c["trajrep"] = True
    tf = ctx.drive("hist", rc, hashseeds=(0, 1, 2) if quick else tuple(range(16)))
    ctx.validate(tf, {c["id"]: c for c in rc}, driver="hist")
    _stats(tf, ctx, {"Apply", "ApplyOp", "IsApplicableOp", "RunPlan", "CopyState", "ExportTrajectory", "ParseTrajectory"})
    # schedules: two threads on one shared domain, thread A pre-empted at sampled lines of its apply
    tc = []
    for i in range(24 if quick else 400):
        # no numeric conditions here: a nested numeric condition is hashed through the symbolic simplifier on
        # every grounding, which under line tracing costs seconds per call and adds nothing about shared state
        c = gen_hist.gen_case(ctx.seed, 200000 + i, with_numeric=False)
        c["points"] = 30 if quick else 120
        c["pairs"] = 3
        tc.append(c)
    tf3 = ctx.drive("threads", tc, hashseeds=(0, 1, 2) if quick else tuple(range(16)))
    ctx.validate(tf3, {c["id"]: c for c in tc}, driver="threads")
    inter = 0
    for line in open(tf3):
        inter += sum(1 for e in json.loads(line)["ev"] if e.get("thread") == "A")
    ctx.extra["thread_interleavings"] = inter
    snaps = 0
    for line in open(tf):
        snaps += sum(1 for e in json.loads(line)["ev"] if e["c"] == "Snap")
    ctx.extra["snapshots_checked"] = snaps
    ctx.rule = ("M: MC_Api, the object model as a machine over a heap of mutable containers (copy / apply / re-used operator "
                "/ ==): every handle keeps the value the semantics dictates (Faithful), the designs that share empty containers "
                "or alias the operator's scratch fluent are refuted; G: every behaviour of that machine up to 2/3 calls and "
                "simulated ones of 6 calls replayed into the library with a snapshot of every live handle after each call; "
                "V: random histories of 22 API calls over one parsed multi-action domain and problem (applicability, apply with "
                "every flag combination on initial, earlier and later states, re-use of one Operator object, copies, equality, "
                "plan execution, export, re-parse); after every call the projection of every live state / run and the digest of "
                "the domain (vocabulary, exported text, effect walk, Domain().types of a fresh Domain) is logged and TLC "
                "checks store'[h] = store[h] for every handle (TraceApi!JSnap) and that repeated calls give equal results; "
                "two-thread interleavings on a shared domain: thread A's apply is pre-empted at sampled executed lines inside the "
                "library (sys.settrace scheduler), thread B runs a whole call there, both results judged as if run alone. "
                "distinct_nontrivial = distinct (domain, call-kind sequence) histories")


def run_c14(ctx):
    quick = ctx.quick
    ctx.mc("MC_Plan", {"MaxLen": 3}, ["RunRefines", "ChainHolds"])
    _api_machine(ctx, quick, 5, 300 if quick else 6000)
    rc = random_hist(ctx, 200 if quick else 4000, 20, base=20000)
    for c in rc:
        c["weights"] = "state"
        c["groundrep"] = True
        c["trajrep"] = True
    tf = ctx.drive("hist", rc, hashseeds=(0, 1, 2) if quick else tuple(range(16)))
    ctx.validate(tf, {c["id"]: c for c in rc}, driver="hist")
    _stats(tf, ctx, {"CopyState", "StateEq", "Apply"})
    ctx.rule = ("M/G: MC_Api (see C07) - its behaviours include every pattern of copy / == / apply up to 2/3 calls; "
                "V: random histories in which states are reached by the problem parser, by successors of typed actions (facts "
                "re-added with narrower type annotations), by copies and by the trajectory parser; every == answer is judged "
                "against the specification's state equality, every copy and later snapshot against the stored value. "
                "distinct_nontrivial = distinct histories with >= 2 state-level calls")


def run_c10(ctx):
    quick = ctx.quick
    ctx.mc("MC_Plan", {"MaxLen": 3}, ["RunRefines", "ChainHolds"])
    cases = plan_cases(ctx, 3 if quick else 4, limit=300 if quick else None)
    tf = ctx.drive("plan", cases, hashseeds=(0, 1, 2) if quick else tuple(range(16)))
    ctx.validate(tf, {c["id"]: c for c in cases}, driver="plan")
    rc = random_hist(ctx, 100 if quick else 2000, 12, base=30000)
    # names that differ only in where the hyphen-separated words are cut into tokens: (q-o1 o2) / (q o1 o2)
    rc += [gen_hist.gen_case(ctx.seed, 33000 + i, n_ops=12, hyphen=True) for i in range(50 if quick else 1000)]
    # trajectories whose fluent values are not short decimals (0.1 increments, thirds, 1e-5 multiples)
    rc += [gen_hist.gen_case(ctx.seed, 35000 + i, n_ops=12, noise=True) for i in range(60 if quick else 1200)]
    for c in rc:
        c["weights"] = "traj"
    tf2 = ctx.drive("hist", rc, hashseeds=(0, 1, 2) if quick else tuple(range(16)))
    ctx.validate(tf2, {c["id"]: c for c in rc}, driver="hist")
    # joint-action trajectories (nop entries, members without parameters): exported, read by the
    # independent reader, parsed back with the executing agents
    import gen_ma
    mc = []
    for i in range(60 if quick else 1200):
        c = gen_ma.gen_case(ctx.seed, 38000 + i, n_ops=6)
        c["weights"] = [0, 1, 0]
        mc.append(c)
    tf3 = ctx.drive("ma", mc, hashseeds=(0, 1, 2) if quick else tuple(range(16)))
    ctx.validate(tf3, {c["id"]: c for c in mc}, driver="ma")
    _stats(tf, ctx, {"ExportTrajectory", "ParseTrajectory"})
    _stats(tf2, ctx, {"ExportTrajectory", "ParseTrajectory", "RunPlan"})
    _stats(tf3, ctx, {"ExportJointTrajectory", "ParseJointTrajectory"})
    ctx.rule = ("trajectories produced by TrajectoryExporter from TLC-generated plans over the micro-domain and from random "
                "multi-action typed domains; the exported text is read by the independent reader and compared by TLC with the "
                "triplets (alternation, headers, one step per action); the text is parsed back by TrajectoryParser with and "
                "without the problem and TLC checks calls, states (facts, fluents with argument lists and values) and the "
                "chain; joint-action trajectories of generated multi-agent domains likewise (MultiAgentTrajectoryExporter, "
                "parse_trajectory with executing_agents). distinct_nontrivial = distinct histories with >= 2 trajectory calls")
