"""C19: planner logs yield exactly the plan's steps."""
import glob
import json
import os
import random

import gen_log


def run(ctx):
    quick = ctx.quick
    rng = random.Random(ctx.seed)
    ctx.mc("MC_PlannerLog", {}, ["PlanIsSteps", "StatusOk"], workers=4)
    ctx.mc("MC_PlannerLog", {}, ["BadGlue"], workers=4, expect_violation=True)
    cases = [gen_log.ff_log(rng, i) for i in range(600 if quick else 12000)]
    cases += [gen_log.enhsp_plan(rng, 500000 + i) for i in range(60 if quick else 600)]
    root = os.path.join(os.environ.get("VERIF_REPO", "/repo"), "tests")
    k = 0
    for f in sorted(glob.glob(root + "/**/*.out", recursive=True)):
        k += 1
        cases.append({"id": 900000 + k, "kind": "ff", "text": open(f, errors="ignore").read()})
    for f in sorted(glob.glob(root + "/**/*.solution", recursive=True)):
        k += 1
        cases.append({"id": 900000 + k, "kind": "enhsp", "text": open(f, errors="ignore").read()})
    tf = ctx.drive("log", cases)
    ctx.validate(tf, {c["id"]: c for c in cases}, driver="log", module="TraceLog", sparse=True, n_records=len(cases))
    sizes = {}
    for line in open(tf):
        r = json.loads(line)
        if "plan" in r["out"]:
            sizes[len(r["out"]["plan"])] = sizes.get(len(r["out"]["plan"]), 0) + 1
            if r["out"]["plan"]:
                ctx.nontrivial.add(r["text"])
        if len(ctx.samples) < 2 and r["kind"] == "ff" and r["out"].get("plan"):
            ctx.sample({"log_tail": r["text"][-400:], "status": r["out"]["status"], "first_actions": r["out"]["plan"][:3]})
    ctx.extra["plan_lengths_seen"] = {str(k_): v for k_, v in sorted(sizes.items())}
    ctx.extra["shipped_logs_and_plans"] = k
    ctx.rule = ("M: logs assembled from header lines x marker x 0-3 steps x trailers: PlanOf is exactly the steps and Status "
                "follows the markers (a reading that glues word-only trailer lines is refuted); V: Metric-FF layouts with plans of "
                "0,1,2,3,9,10,11,12,99,100,101,150 steps (names over letters, digits, '-', '_'; 0-4 arguments; step-number "
                "widths 3/4/6; 'step' prefix; upper / lower case), real header shapes, trailers (plan cost, time-spent block, "
                "blank lines, word-only lines, nothing), CRLF, unsolvable / timeout logs, ENHSP plans, and the logs / plans "
                "shipped under tests/. TLC judges status, action list and the written plan file against PlannerLog!PlanOf on the "
                "tokenised lines. distinct_nontrivial = distinct logs with a non-empty plan")
    ctx.assumptions += ["the lexer (whitespace split, lower-casing, ^\\\\d+:$ = step number) is part of the trusted base",
                        "header and trailer lines are drawn from shapes that are not themselves step lines"]
