"""C11: the S-expression reader.  M: MC_Sexp (one-pass reader refines the declarative reading
on every text up to a length bound); V: every short text and random structured texts are fed
to PDDLTokenizer (string and file input) and to the harness' own reader, and TLC judges each
recorded outcome with Sexp!Read."""
import json
import random

import drive_sexp
import layout
from tlc import MachineryError

NAMES = ["define", "domain", ":types", "?x", "-", "obj1", "p", "at-robot", "x_y", "=", "<=", "3", "2.50", "-1",
         "increase", "and", "not", "a", "b", "ab", "forall", "when", "total-cost", "o1", "q2"]


def rand_tree(rng, depth, width):
    if depth == 0 or rng.random() < 0.25:
        return {"t": "s", "v": rng.choice(NAMES)}
    return {"t": "l", "c": [rand_tree(rng, depth - 1, width) for _ in range(rng.randint(0, width))]}


def structured(rng, n):
    """well-formed texts in random layouts, and single-point corruptions of them"""
    out = []
    for _ in range(n):
        t = {"t": "l", "c": [rand_tree(rng, rng.randint(1, 5), rng.randint(1, 5)) for _ in range(rng.randint(0, 5))]}
        text = layout.wild(t, rng.randrange(1 << 30))
        text = text.replace("\r\n", "\n") if rng.random() < 0.5 else text
        r = rng.random()
        if r < 0.45:
            out.append(text)
        elif r < 0.6:                      # delete one parenthesis
            idx = [i for i, ch in enumerate(text) if ch in "()"]
            i = rng.choice(idx)
            out.append(text[:i] + text[i + 1:])
        elif r < 0.75:                     # insert one parenthesis
            i = rng.randrange(len(text) + 1)
            out.append(text[:i] + rng.choice("()") + text[i:])
        else:                              # something after the closing parenthesis
            out.append(text + rng.choice(["\n", " ", "\n\n"]) + rng.choice([")", "(a)", "x", "(", "()", "a b", "; c\n)"]))
    # comment-only lines containing carriage returns differ between file and string input (Sexp!Open)
    return [t for t in out]


def run(ctx):
    quick = ctx.quick
    rng = random.Random(ctx.seed)
    ctx.mc("MC_Sexp", {"MaxLen": 5 if quick else 7}, ["ReaderRefines", "CaseInsensitive", "NoTrailing", "TokensOnly"],
           timeout=3600)
    ctx.mc("MC_Sexp", {"MaxLen": 5}, ["BadTabDeleted"], expect_violation=True)
    ctx.mc("MC_Sexp", {"MaxLen": 5}, ["BadTailIgnored"], expect_violation=True)
    texts = list(drive_sexp.exhaustive(4 if quick else 6))
    n_exh = len(texts)
    texts += structured(rng, 1500 if quick else 30000)
    cases = []
    for i, t in enumerate(texts):
        for mode in ("str", "file", "ref"):
            cases.append({"id": len(cases) + 1, "text": t, "mode": mode})
    tf = ctx.drive("sexp", cases)
    v = ctx.validate(tf, {c["id"]: c for c in cases}, driver="sexp", module="TraceSexp", sparse=True, n_records=len(cases))
    # the harness' own reader (trusted base) must conform without any deviation
    by_id = {c["id"]: c for c in cases}
    for i, (fail, known, _) in v.items():
        if by_id[i]["mode"] == "ref":
            raise MachineryError(f"harness/sexp_reader.py disagrees with Sexp.tla on {by_id[i]['text']!r}")
    # non-trivial = distinct texts that read as a non-empty list
    for line in open(tf):
        r = json.loads(line)
        if r["mode"] == "str" and "tree" in r["out"] and r["out"]["tree"].get("c"):
            ctx.nontrivial.add("".join(r["chars"]))
    ctx.exhaustive = True
    ctx.extra["exhaustive_scope"] = f"all {n_exh} texts of length <= {4 if quick else 6} over the alphabet ( ) ; space tab LF CRLF a b A"
    ctx.sample({"text": texts[n_exh], "mode": "str/file/ref"})
    ctx.sample({"text": texts[-1], "mode": "str/file/ref"})
    ctx.rule = ("every text up to the length bound over a 10-symbol alphabet plus random token trees (<= 5 deep) rendered "
                "with random separators / case / comments and their single-parenthesis corruptions and trailing suffixes; "
                "each text is read from a string, from a file and by the harness' reference reader; TLC judges each outcome "
                "with Sexp!Read. distinct_nontrivial = distinct texts that read as a non-empty list")
    ctx.assumptions += ["texts with a carriage return not followed by a line feed, and a bare symbol as the whole input, "
                        "are left open (Sexp!Open)",
                        "tokens are compared as strings; number tokens are not distinguished at this level"]
