"""development aid: generate random core cases, drive, validate, summarise failures"""
import json, sys, collections
import gen_core, drive_core, tlc
n = int(sys.argv[1]); seed = int(sys.argv[2]); show = int(sys.argv[3]) if len(sys.argv) > 3 else 1
kw = {}
tf = '/verif/.work/t/trace.ndjson'
with open(tf, 'w') as g:
    for i in range(n):
        g.write(json.dumps(drive_core.run_case(gen_core.gen_case(seed, i, **kw))) + "\n")
v, ex, st, outs = tlc.validate_traces(tf, '/verif/.work/t/val', {"ForallPreDropped","RepeatedFluentArg","GoalFluentUnchecked"}, shards=16, explain=True)
print(collections.Counter((x[0], tuple(sorted(x[1]))) for x in v.values()), st)
H = {json.loads(l)['id']: json.loads(l) for l in open(tf)}
shown = collections.Counter()
for i, (f, k, cnt) in sorted(v.items()):
    if f and shown[f] < show:
        shown[f] += 1
        print("=====", i, f, cnt)
        print(H[i]['text'][H[i]['text'].find('(:action'):])
        e = H[i]['ev'][cnt - 1]
        print(json.dumps({k_: v_ for k_, v_ in e.items() if k_ not in ('tree', 'snap')})[:1500])
        if e['c'] in ('IsApplicable', 'Apply'):
            for ee in H[i]['ev']:
                if ee.get('h') == e['s']:
                    print("STATE", json.dumps(ee.get('st') or ee['out'].get('st'))[:1500])
        if e['c'] == 'Snap':
            print({k_: v_ for k_, v_ in e['snap'].items() if k_ == 'd'}, [x['out'].get('digest') for x in H[i]['ev'] if x['c'] == 'ParseDomain'])
        print(ex.get(i, '')[:2500])
