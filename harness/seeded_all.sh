#!/bin/sh
# development aid: every seeded change against the quick check of its property (scratch worktrees)
cd "$(dirname "$0")/.." || exit 2
for d in seeded/*/; do
  n=$(basename "$d")
  pid=$(echo "$n" | cut -c1-3)
  /venv/bin/python harness/seeded.py run "$n" "$pid" quick --worktree 2>&1 | grep -E "^$n" | cut -c1-200
done
