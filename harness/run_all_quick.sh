#!/bin/sh
# development aid: every quick check once, with the seed given as $1 (default 1, what a fresh-copy run uses)
cd "$(dirname "$0")/.." || exit 2
SEED=${1:-1}
for p in C01 C02 C03 C04 C05 C06 C07 C08 C09 C10 C11 C12 C13 C14 C15 C16 C17 C18 C19 C20; do
  VERIF_SEED=$SEED VERIF_TIER=quick ./check $p > .work/quick_$p.log 2>&1
  echo "$p rc=$? $(grep -E 'done:' .work/quick_$p.log | cut -c1-120)"
  grep -E "VIOLATION|MACHINERY" .work/quick_$p.log | cut -c1-200 | head -5
done
