"""Replay of the behaviours of spec/MC_Api.tla (the heap-level machine of the object model) into the
library: each history is the sequence of public calls TLC took; the calls are executed on real objects
(states, one re-used Operator object per NewOp), every result is recorded, a snapshot of every live
handle follows every call, and TraceApi judges the lot."""
import pylib
import layout
from drive_core import domain_digest

OBJS = [["a", "t1"], ["b", "t1"]]


def run_case(case, opts):
    ev = []
    hist = {"id": case["id"], "ev": ev, "text": " ".join(c["c"] for c in case["calls"])}
    tree = case["dom"]
    try:
        dom = pylib.parse_domain_text(layout.pretty(tree))
        ev.append({"c": "ParseDomain", "h": "d", "tree": tree, "out": {"vocab": pylib.vocab(dom), "digest": domain_digest(dom)}})
    except Exception as e:  # noqa: BLE001
        ev.append({"c": "ParseDomain", "h": "d", "tree": tree, "out": {"exc": pylib.exc_name(e)}})
        return hist
    objects = pylib.mk_objects(dom, OBJS)
    ev.append({"c": "Objects", "h": "u", "d": "d", "objs": OBJS})
    init = case["calls"][0]
    st = {"facts": [[f[0], list(f[1])] for f in init["facts"]], "fl": [["g", [], list(init["g"])]]}
    states, ops = {}, {}
    try:
        states["s0"], _ = pylib.mk_state_via_problem(dom, OBJS, st["facts"], st["fl"], is_init=True)
        ev.append({"c": "NewState", "h": "s0", "st": st, "out": {"st": pylib.project_state(states["s0"])}})
    except Exception as e:  # noqa: BLE001
        ev.append({"c": "NewState", "h": "s0", "st": st, "out": {"exc": pylib.exc_name(e)}})
        return hist
    mismatch = []
    for i, c in enumerate(case["calls"][1:]):
        k = c["c"]
        if k == "Copy":
            try:
                states[c["h"]] = states[c["s"]].copy()
                ev.append({"c": "CopyState", "s": c["s"], "h": c["h"], "out": {"st": pylib.project_state(states[c["h"]])}})
            except Exception as e:  # noqa: BLE001
                ev.append({"c": "CopyState", "s": c["s"], "h": c["h"], "out": {"exc": pylib.exc_name(e)}})
        elif k == "Eq":
            try:
                out = {"val": bool(states[c["a"]] == states[c["b"]])}
            except Exception as e:  # noqa: BLE001
                out = {"exc": pylib.exc_name(e)}
            ev.append({"c": "StateEq", "a": c["a"], "b": c["b"], "out": out})
            if out.get("val") != c["val"]:
                mismatch.append(i)
        elif k == "Edit":
            e = pylib.apply_edit(dom, states[c["s"]], c["how"], c["fact"][0], list(c["fact"][1]))
            e.update({"c": "EditState", "s": c["s"]})
            ev.append(e)
        elif k == "NewOp":
            ops[c["op"]] = pylib.new_operator(dom, c["act"], list(c["args"]), objects)
            ev.append({"c": "NewOperator", "h": c["op"], "d": "d", "u": "u", "act": c["act"], "args": list(c["args"])})
        elif k in ("Apply", "ApplyOp"):
            # the machine names the result handle only when the call returns; a call it expects to be
            # refused gets a handle of its own so that an unexpected result can still be recorded
            h = c["h"] or f"x{i}"
            if k == "Apply":
                out, new = pylib.observe_apply(dom, c["act"], list(c["args"]), objects, states[c["s"]], allow=c["allow"])
                ev.append({"c": "Apply", "d": "d", "u": "u", "act": c["act"], "args": list(c["args"]), "s": c["s"], "h": h,
                           "allow": c["allow"], "skip": False, "out": out})
            else:
                out, new = pylib.observe_apply(dom, None, None, None, states[c["s"]], allow=c["allow"], op=ops[c["op"]])
                ev.append({"c": "ApplyOp", "op": c["op"], "s": c["s"], "h": h, "allow": c["allow"], "skip": False, "out": out})
            if ("exc" in out) != c["exc"]:
                mismatch.append(i)
            if new is None:
                if not c["exc"]:
                    break       # the rest of the behaviour refers to a handle that does not exist
            else:
                states[h] = new
        snap = {h: pylib.project_state(v) for h, v in states.items()}
        snap["d"] = domain_digest(dom)
        ev.append({"c": "Snap", "snap": snap})
    hist["machine_mismatch"] = mismatch
    return hist
