"""C01: domain text is parsed faithfully or rejected."""
import json
import random

import fixtures
import gen_hist


def run_c01(ctx):
    quick = ctx.quick
    rng = random.Random(ctx.seed)
    hashseeds = (0, 1, 2) if quick else tuple(range(16))
    depth = 1 if quick else 2
    for mode in ("pre", "eff"):
        ctx.mc("MC_Grammar", {"Mode": f'"{mode}"', "Depth": depth, "NVals": 2}, ["Classified", "ReadBack", "NoBadNodes"],
               label=f"MC_Grammar:{mode}", timeout=1500)
    cases = []
    for mode in ("pre", "eff"):
        gf = ctx.work / f"gen_domain_{mode}.ndjson"
        ctx.gen("Gen_Domain", {"Mode": f'"{mode}"', "Depth": 2, "NVals": 2, "Stride": (60 if mode == "pre" else 25) if quick else 4}, gf)
        for line in open(gf):
            c = json.loads(line)
            c["id"] = len(cases) + 1
            if c["kind"] == "supported" and rng.random() < 0.5:
                c["layout"] = rng.randrange(1 << 30)
            cases.append(c)
    opts = {"mode": "pre", "nvals": 2, "sample": 24 if quick else 96, "seed": ctx.seed}
    tf = ctx.drive("exh", cases, hashseeds=hashseeds, opts=opts)
    ctx.validate(tf, {c["id"]: c for c in cases}, driver="exh", opts=opts)
    len_out = {}
    byid = {c["id"]: c for c in cases}
    for line in open(tf):
        h = json.loads(line)
        c = byid[h["id"]]
        ctx.nontrivial.add(h.get("text", ""))
        if c["kind"] != "supported":
            e = h["ev"][0]
            rows = [r for ev in h["ev"] if ev["c"] in ("AppTable", "ApplyTable") for r in ev["rows"]]
            len_out[c["name"]] = ("parse:" + e["out"]["exc"]) if "exc" in e["out"] else \
                ("use:" + rows[0]["out"]["exc"] if rows and "exc" in rows[0]["out"] else "faithful")
            if len(ctx.samples) < 2:
                ctx.sample({"lenient_form": c["name"], "outcome": len_out[c["name"]], "text": h.get("text", "")[-300:]})
    ctx.extra["lenient_forms_outcome"] = len_out
    # random multi-action domains in random layouts, behaviour observed through short histories
    rc = [gen_hist.gen_case(ctx.seed, 50000 + i, n_ops=8) for i in range(100 if quick else 2500)]
    for c in rc:
        c["layout"] = rng.randrange(1 << 30)
        c["weights"] = "chain"
    tf2 = ctx.drive("hist", rc, hashseeds=hashseeds)
    ctx.validate(tf2, {c["id"]: c for c in rc}, driver="hist")
    for line in open(tf2):
        ctx.nontrivial.add(json.loads(line).get("text", ""))
    # every domain file shipped with the repository's tests
    fx = [{"id": 900000 + i, "kind": "domain", "path": p} for i, p in enumerate(fixtures.domains())]
    tf3 = ctx.drive("fixture", fx, hashseeds=hashseeds[:1])
    ctx.validate(tf3, {c["id"]: c for c in fx}, driver="fixture")
    ctx.extra["fixture_domains"] = len(fx)
    ctx.sample({"fixture": fx[0]["path"]})
    ctx.rule = ("M: reading back every rendered domain of the family gives the rendered AST and the intended classification; "
                "G: every lenient form of spec/DomainFamily.tla (faithful or exception) and the supported family with grouped "
                "parameter lists / bare when-bodies, replayed with truth / successor tables over sampled states x 4 bindings; "
                "V: random 3-6-action typed domains in random layouts observed through call histories, and every domain file "
                "under tests/ (vocabulary compared with the specification's reading of the same text). "
                "distinct_nontrivial = distinct domain texts driven")
    ctx.assumptions += ["a supported-fragment text that the library rejects counts as a violation (DESIGN 6/C01)",
                        "constructs the specification cannot give a meaning to (either types) admit any outcome"]
