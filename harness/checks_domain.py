"""C01: domain text is parsed faithfully or rejected."""
import json
import random

import fixtures
import gen_hist


def run_c01(ctx):
    quick = ctx.quick
    rng = random.Random(ctx.seed)
    hashseeds = (0, 1, 2) if quick else tuple(range(16))
    depth = 1 if quick else 2
    for mode in ("pre", "eff"):
        ctx.mc("MC_Grammar", {"Mode": f'"{mode}"', "Depth": depth, "NVals": 2}, ["Classified", "ReadBack", "NoBadNodes"],
               label=f"MC_Grammar:{mode}", timeout=3600)
    cases = []
    for mode in ("pre", "eff"):
        gf = ctx.work / f"gen_domain_{mode}.ndjson"
        ctx.gen("Gen_Domain", {"Mode": f'"{mode}"', "Depth": 2, "NVals": 2, "Stride": (60 if mode == "pre" else 25) if quick else 4}, gf)
        for line in open(gf):
            c = json.loads(line)
            c["id"] = len(cases) + 1
            if c["kind"] == "supported" and rng.random() < 0.5:
                c["layout"] = rng.randrange(1 << 30)
            cases.append(c)
    opts = {"mode": "pre", "nvals": 2, "sample": 24 if quick else 96, "seed": ctx.seed}
    tf = ctx.drive("exh", cases, hashseeds=hashseeds, opts=opts)
    ctx.validate(tf, {c["id"]: c for c in cases}, driver="exh", opts=opts)
    len_out = {}
    byid = {c["id"]: c for c in cases}
    for line in open(tf):
        h = json.loads(line)
        c = byid[h["id"]]
        ctx.nontrivial.add(h.get("text", ""))
        if c["kind"] != "supported":
            e = h["ev"][0]
            rows = [r for ev in h["ev"] if ev["c"] in ("AppTable", "ApplyTable") for r in ev["rows"]]
            len_out[c["name"]] = ("parse:" + e["out"]["exc"]) if "exc" in e["out"] else \
                ("use:" + rows[0]["out"]["exc"] if rows and "exc" in rows[0]["out"] else "faithful")
            if len(ctx.samples) < 2:
                ctx.sample({"lenient_form": c["name"], "outcome": len_out[c["name"]], "text": h.get("text", "")[-300:]})
    ctx.extra["lenient_forms_outcome"] = len_out
    # random multi-action domains in random layouts, behaviour observed through short histories
    # (forall effects whose bound variable re-uses a parameter's name are generated here only)
    rc = [gen_hist.gen_case(ctx.seed, 50000 + i, n_ops=8, with_shadow=True) for i in range(100 if quick else 2500)]
    # nested connectives made of object (in)equalities only (the parser keeps those apart from the other members)
    rc += [gen_hist.gen_case(ctx.seed, 53000 + i, n_ops=10, with_eqonly=True) for i in range(60 if quick else 1500)]
    for c in rc:
        c["layout"] = rng.randrange(1 << 30)
        c["weights"] = "chain"
    tf2 = ctx.drive("hist", rc, hashseeds=hashseeds)
    ctx.validate(tf2, {c["id"]: c for c in rc}, driver="hist")
    for line in open(tf2):
        ctx.nontrivial.add(json.loads(line).get("text", ""))
    # every domain file shipped with the repository's tests
    fx = [{"id": 900000 + i, "kind": "domain", "path": p} for i, p in enumerate(fixtures.domains())]
    tf3 = ctx.drive("fixture", fx, hashseeds=hashseeds[:1])
    ctx.validate(tf3, {c["id"]: c for c in fx}, driver="fixture")
    ctx.extra["fixture_domains"] = len(fx)
    ctx.sample({"fixture": fx[0]["path"]})
    ctx.rule = ("M: reading back every rendered domain of the family gives the rendered AST and the intended classification; "
                "G: every lenient form of spec/DomainFamily.tla (faithful or exception) and the supported family with grouped "
                "parameter lists / bare when-bodies, replayed with truth / successor tables over sampled states x 4 bindings; "
                "V: random 3-6-action typed domains in random layouts observed through call histories, and every domain file "
                "under tests/ (vocabulary compared with the specification's reading of the same text). "
                "distinct_nontrivial = distinct domain texts driven")
    ctx.assumptions += ["a supported-fragment text that the library rejects counts as a violation (DESIGN 6/C01)",
                        "constructs the specification cannot give a meaning to (either types) admit any outcome"]


def _export_cases(ctx, n, base, **kw):
    cases = []
    for i in range(n):
        c = gen_hist.gen_case(ctx.seed, base + i, **kw)
        c["walk"] = 3
        cases.append(c)
    return cases


def _fixture_export_cases(base):
    return [{"id": base + i, "path": d, "prob_path": f, "seed": i, "walk": 3} for i, (f, d) in enumerate(fixtures.problems())]


def _count_comparisons(tf):
    """number of (action call, state) pairs on which TLC compared source and exported domain"""
    total = 0
    for line in open(tf):
        h = json.loads(line)
        vocab = objs = None
        for e in h["ev"]:
            if e["c"] == "ParseDomain" and "vocab" in e["out"]:
                vocab = e["out"]["vocab"]
            if e["c"] == "ParseProblem" and "prob" in e["out"] and objs is None:
                objs = e["out"]["prob"]["objs"]
            if e["c"] == "ExportDomain" and "tree" in e["out"] and vocab and objs is not None:
                if "calls" in e:
                    total += len(e["calls"]) * len(e["states"])
                    continue
                parent = {a: b for a, b in vocab["types"]}

                def sub(a, b):
                    while a is not None:
                        if a == b or b == "object":
                            return True
                        a = parent.get(a)
                    return False
                names = list(objs) + list(vocab["consts"])
                for _, params in vocab["actions"]:
                    k = 1
                    for _, ty in params:
                        k *= sum(1 for _, t in names if sub(t, ty))
                    total += k * len(e["states"])
    return total


def run_c08(ctx):
    quick = ctx.quick
    hashseeds = (0, 1, 2) if quick else tuple(range(16))
    ctx.mc("MC_Grammar", {"Mode": '"eff"', "Depth": 1 if quick else 2, "NVals": 2}, ["Classified", "ReadBack"], label="MC_Grammar:eff")
    cases = _export_cases(ctx, 150 if quick else 3000, 60000)
    cases += _fixture_export_cases(950000)
    tf = ctx.drive("export", cases, hashseeds=hashseeds)
    ctx.validate(tf, {c["id"]: c for c in cases}, driver="export")
    n = 0
    for line in open(tf):
        h = json.loads(line)
        if sum(1 for e in h["ev"] if e["c"] == "ExportDomain") == 2:
            ctx.nontrivial.add(h.get("text", ""))
        n += sum(1 for e in h["ev"] if e["c"] == "ExportDomain")
        if len(ctx.samples) < 2:
            ctx.sample({"source": h.get("text", "")[:400], "exported": h.get("exported", "")[:400]})
    ctx.extra["export_events"] = n
    ctx.extra["programs"] = n
    ctx.extra["disagreements_checked"] = _count_comparisons(tf)
    ctx.rule = ("random 3-7-action typed domains (conditions with or/forall/numeric comparisons, when and forall-when effects, "
                "constants) and every (domain, problem) pair shipped under tests/: DomainExporter text -> independent reader -> "
                "the specification's own reading D2; TLC checks vocabulary(D2) = vocabulary(D), the library's re-parse of the "
                "text has that vocabulary too, and for every action, every type-correct call over the universe (a sample for "
                "fixtures) and every listed state: Holds(D2) = Holds(D) and Succ(D2) = Succ(D); then a second export/parse "
                "round. distinct_nontrivial = distinct source domains that went through two export rounds")
    ctx.assumptions += ["numeric constants of generated domains are representable at the exporter's 2 decimals",
                        "conditions whose fluents cancel or are multiplied by literal zero are not generated (the simplifier that "
                        "prints nested conditions folds them to constant comparisons the parser rejects; see DESIGN 8)"]


def run_c09(ctx):
    quick = ctx.quick
    import gen_problem
    rng = random.Random(ctx.seed)
    hashseeds = (0, 1, 2) if quick else tuple(range(16))
    ctx.mc("MC_Problem", {}, ["BaseWellFormed", "ReadBack"], workers=4)
    cases = []
    i = 0
    while len(cases) < (200 if quick else 4000):
        i += 1
        c = gen_problem.gen_problem(rng, 70000 + i, repeats=True)
        if c["kind"] != "valid":
            continue
        cases.append({"id": c["id"], "dom": c["dom"], "prob": c["tree"], "seed": i, "walk": 0})
    # benchmark-style names (hyphenated words) and numeric goals longer than a short line
    cases += [gen_problem.long_names_case(rng, 80000 + k) for k in range(40 if quick else 800)]
    cases += _fixture_export_cases(960000)
    tf = ctx.drive("export", cases, hashseeds=hashseeds)
    ctx.validate(tf, {c["id"]: c for c in cases}, driver="export")
    for line in open(tf):
        h = json.loads(line)
        if any(e["c"] == "ExportProblem" and "tree" in e["out"] for e in h["ev"]):
            ctx.nontrivial.add(h["id"])
    ctx.sample({"case": cases[0]["id"], "events": ["ParseProblem", "ExportProblem", "ParseProblem", "ExportProblem"]})
    ctx.rule = ("random well-formed problems over a typed domain with constants (typed / grouped / untyped object lists, "
                "zero-arity atoms, constants and repeated arguments in facts and fluents, integer/decimal/negative/exponent "
                "values, goal literals and numeric goals, empty sections) and every problem shipped under tests/: "
                "ProblemExporter text -> independent reader -> the specification's reading; TLC checks name, domain, objects, "
                "initial facts, fluent values and goals against the source problem; the library re-parses the text and the "
                "result is judged again, and exported once more. distinct_nontrivial = distinct problems exported")
