import json, sys, gen_hist, drive_hist, tlc, collections
n=int(sys.argv[1]); seed=int(sys.argv[2])
with open('/verif/.work/hist.ndjson','w') as g:
    for i in range(n):
        c = gen_hist.gen_case(seed, i)
        g.write(json.dumps(drive_hist.run_case(c, {}))+"\n")
v, ex, st, outs = tlc.validate_traces('/verif/.work/hist.ndjson', '/verif/.work/hval', {"ForallPreDropped","GoalFluentUnchecked","RepeatedFluentArg"}, shards=16, explain=True)
print(collections.Counter((x[0], tuple(x[1])) for x in v.values()), st)
H = {json.loads(l)['id']: json.loads(l) for l in open('/verif/.work/hist.ndjson')}
print(collections.Counter(e['c'] for h in H.values() for e in h['ev']))
shown=set()
for i,(f,k,n) in sorted(v.items()):
    if f and f not in shown:
        shown.add(f)
        print("=====", i, f, n); print(H[i]['text'][:1800])
        e=H[i]['ev'][n-1]; print(json.dumps({a:b for a,b in e.items() if a not in('tree','snap')})[:1800]); print(ex.get(i,'')[:1500])
