import json, sys, gen_hist, drive_export, tlc, collections
n=int(sys.argv[1]); seed=int(sys.argv[2]); kw={}
if len(sys.argv)>3: kw=dict(with_forall=False, with_numeric=(sys.argv[3]=="num"))
with open('/verif/.work/exp.ndjson','w') as g:
    for i in range(n):
        c = gen_hist.gen_case(seed, i, **kw)
        g.write(json.dumps(drive_export.run_case(c, {}))+"\n")
v, ex, st, outs = tlc.validate_traces('/verif/.work/exp.ndjson', '/verif/.work/expval', {"ForallPreDropped","GoalFluentUnchecked","RepeatedFluentArg"}, shards=16, explain=True)
print(collections.Counter((x[0], tuple(x[1])) for x in v.values()), st)
H = {json.loads(l)['id']: json.loads(l) for l in open('/verif/.work/exp.ndjson')}
shown=set()
for i,(f,k,nn) in sorted(v.items()):
    if f and f not in shown:
        shown.add(f)
        print("=====", i, f, nn); print(H[i]['text'][:1500]); print("--- exported:"); print(H[i].get('exported','')[-1800:])
        e=H[i]['ev'][nn-1]; print(json.dumps({a:b for a,b in e.items() if a not in('tree','snap','out')})[:500], list(e['out'].keys()), e['out'].get('exc'), e['out'].get('exc2'))
