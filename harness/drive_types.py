"""C06 driver: a TLC-generated rendering of a type forest (the token sequence of the :types
section) is wrapped into a domain; the library's subtype answers, hierarchy graph, acceptance of
typed problem facts and the range of forall effects are recorded for TraceApi."""
import layout
import pylib
from drive_core import domain_digest
from gen_core import S, L, typed


def domain_tree(tokens, names):
    tys = list(names) + ["object"]
    preds = [L(S("r")), L(S("m"), S("?a"), S("-"), S("object"))] + [L(S(f"n_{t}"), S("?a"), S("-"), S(t)) for t in tys]
    # the same test next to a parameter of the root type, written typed and left untyped
    preds += [L(S(f"b_{t}"), S("?a"), S("-"), S(t), S("?b"), S("-"), S("object")) for t in tys]
    preds += [L(S(f"u_{t}"), S("?a"), S("-"), S(t), S("?b")) for t in tys]
    acts = [L(S(":action"), S(f"mark_{t}"), S(":parameters"), L(), S(":precondition"), L(),
              S(":effect"), L(S("and"), L(S("forall"), L(S("?z"), S("-"), S(t)), L(S("when"), L(S("r")), L(S("m"), S("?z"))))))
            for t in tys]
    return L(S("define"), L(S("domain"), S("ty")), L(S(":requirements"), S(":typing")),
             L(S(":types"), *tokens), L(S(":predicates"), *preds), L(S(":functions"), L(S("cnt"))), *acts)


def problem_tree(objs, fact, with_fluent=False):
    init = [L(*[S(x) for x in fact])]
    if with_fluent:
        init.append(L(S("="), L(S("cnt")), {"t": "n", "v": [0, 1]}))
    return L(S("define"), L(S("problem"), S("pt")), L(S(":domain"), S("ty")),
             L(S(":objects"), *typed(objs)), L(S(":init"), *init), L(S(":goal"), L(S("and"))))


def run_case(case, opts):
    ev = []
    hist = {"id": case["id"], "ev": ev}
    names = sorted(case["forest"])
    tree = domain_tree(case["tokens"], names)
    seed = case.get("layout")
    text = layout.pretty(tree) if seed is None else layout.wild(tree, seed)
    hist["text"] = layout.flat({"t": "l", "c": [S(":types")] + case["tokens"]})
    try:
        dom = pylib.parse_domain_text(text)
        ev.append({"c": "ParseDomain", "h": "d", "tree": tree, "out": {"vocab": pylib.vocab(dom), "digest": domain_digest(dom)}})
    except Exception as e:  # noqa: BLE001
        ev.append({"c": "ParseDomain", "h": "d", "tree": tree, "out": {"exc": pylib.exc_name(e)}})
        return hist
    ev.append({"c": "TypeMatrix", "d": "d", "rows": pylib.subtype_matrix(dom)})
    edges, nodes = pylib.type_graph(dom)
    ev.append({"c": "TypeGraph", "d": "d", "edges": edges, "nodes": nodes})
    tys = names + ["object"]
    objs = [[f"o_{t}", t] for t in tys]
    objects = pylib.mk_objects(dom, objs)
    ev.append({"c": "Objects", "h": "u", "d": "d", "objs": objs})
    st = {"facts": [["r", []]], "fl": []}
    state, _ = pylib.mk_state_via_problem(dom, objs, st["facts"], st["fl"])
    ev.append({"c": "NewState", "h": "s0", "st": st, "out": {"st": pylib.project_state(state)}})
    rows = []
    for t in tys:
        out, _ = pylib.observe_apply(dom, f"mark_{t}", [], objects, state)
        ev.append({"c": "Apply", "d": "d", "u": "u", "act": f"mark_{t}", "args": [], "s": "s0", "h": f"m_{t}",
                   "allow": False, "skip": False, "out": out})
    # acceptance of a fact (n_T2 o_T1): exactly when T1 is a subtype of T2
    k = 0
    for t1 in tys:
        for t2 in tys:
            k += 1
            fact = ([f"n_{t2}", f"o_{t1}"], [f"b_{t2}", f"o_{t1}", f"o_{t2}"], [f"u_{t2}", f"o_{t1}", "o_object"])[k % 3]
            ptree = problem_tree(objs, fact)
            if k % 2:
                # problem after problem against this one Domain object, the same object name declared with another
                # type each time (and a fluent in :init): what a problem declares must not outlive it
                xfact = [fact[0], "x"] + (["y"] if len(fact) == 3 else [])
                ptree = problem_tree([["x", t1], ["y", t2 if fact[0].startswith("b_") else "object"]], xfact, with_fluent=True)
            out, _ = pylib.observe_problem(layout.pretty(ptree), dom)
            ev.append({"c": "ParseProblem", "h": f"p{k}", "d": "d", "tree": ptree, "out": out})
    # a shallow copy of the domain (Domain.shallow_copy) denotes the same declarations: the relation inside the copy,
    # between the copy's types and the original's, and the acceptance of facts by a problem parsed against the copy
    try:
        cp = dom.shallow_copy()
    except Exception as e:  # noqa: BLE001
        ev.append({"c": "Harness", "what": "shallow_copy", "exc": pylib.exc_name(e)})
        return hist
    ev.append({"c": "TypeMatrix", "d": "d", "via": "copy", "rows": pylib.subtype_matrix(cp)})
    tn = sorted(dom.types)
    ev.append({"c": "TypeMatrix", "d": "d", "via": "copy-vs-original",
               "rows": [[a, b, bool(cp.types[a].is_sub_type(dom.types[b]))] for a in tn for b in tn]})
    for t1 in tys:
        for t2 in tys:
            k += 1
            if k % 2:
                continue
            fact = ([f"n_{t2}", f"o_{t1}"], [f"b_{t2}", f"o_{t1}", f"o_{t2}"], [f"u_{t2}", f"o_{t1}", "o_object"])[k % 3]
            ptree = problem_tree(objs, fact)
            out, _ = pylib.observe_problem(layout.pretty(ptree), cp)
            ev.append({"c": "ParseProblem", "h": f"p{k}", "d": "d", "via": "copy", "tree": ptree, "out": out})
    ev.append({"c": "Snap", "snap": {"d": domain_digest(dom), "s0": pylib.project_state(state)}})
    return hist
