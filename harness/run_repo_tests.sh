#!/bin/sh
# regression base for fix: commits: the pinned command (63 tests) and every test directory
# run from inside itself (273 tests; the fixtures are resolved against the cwd)
cd /repo || exit 2
echo "== pinned"; /venv/bin/python -m pytest -q -p no:cacheprovider --timeout=900 --continue-on-collection-errors 2>&1 | tail -3
for d in exporters_tests lisp_parsers_tests models_tests multi_agent_tests; do
  echo "== $d"; (cd tests/$d && /venv/bin/python -m pytest -q -p no:cacheprovider --timeout=900 2>&1 | tail -3)
done
cd /repo && git status --short | head
