"""float -> small rational projection shared by the state projection and the independent reader, so that a
value and the text it is printed as are mapped to the same rational (the exact double travels separately as its
canonical text)."""
import math
from fractions import Fraction

def snap(x, max_den=16384):
    """float -> [n, d]: the closest rational with denominator <= max_den when the float is (within 64 ulp) one;
    None when it is not (callers then log a 6-decimal approximation).  max_den equals Rat!Limit: every value the
    specification regards as determined (components within the limit) is representable here."""
    if isinstance(x, bool):
        raise TypeError("bool is not a number here")
    fr = Fraction(x).limit_denominator(max_den)
    # "is one": within 64 units in the last place (float noise of a few operations), not a relative
    # tolerance - at magnitude 10^5 a relative 1e-9 would swallow half a default comparison tolerance
    if abs(float(fr) - float(x)) <= max(64 * math.ulp(float(x)), 1e-15):
        return [fr.numerator, fr.denominator]
    return None


INT_MAX = 2 ** 31 - 1


def snap_or_approx(x):
    """[n, d] with both inside 31 bits (TLC integers); [0, 0] marks a value that cannot be
    rendered so (the specification treats it as too big to compute with)"""
    try:
        s = snap(x)
        if s is None:
            # a double whose shortest text is a short decimal (1.25e-05, 12.345678) is that decimal, exactly
            fr = Fraction(repr(float(x)))
            if fr.denominator > 10 ** 9 or abs(fr.numerator) > INT_MAX:
                fr = Fraction(round(float(x) * 10 ** 6), 10 ** 6)
            s = [fr.numerator, fr.denominator]
    except (OverflowError, ValueError):     # inf / nan
        return [0, 0]
    if abs(s[0]) > INT_MAX or s[1] > INT_MAX:
        return [0, 0]
    return s


