"""C04/C10 driver for TLC-generated plans: run the plan through TrajectoryExporter (with or
without the allow switch), export the trajectory, parse it back with and without the problem,
and apply the same steps directly through Operator.apply."""
import os

import layout
import pylib
import sexp_reader
from drive_core import domain_digest
from drive_hist import proj_steps
from pddl_plus_parser.exporters import TrajectoryExporter
from pddl_plus_parser.lisp_parsers import TrajectoryParser


def run_case(case, opts):
    ev = []
    hist = {"id": case["id"], "ev": ev, "text": str(case["plan"]) + " allow=" + str(case["allow"])}
    try:
        dom = pylib.parse_domain_text(layout.pretty(case["dom"]))
        ev.append({"c": "ParseDomain", "h": "d", "tree": case["dom"], "out": {"vocab": pylib.vocab(dom), "digest": domain_digest(dom)}})
    except Exception as e:  # noqa: BLE001
        ev.append({"c": "ParseDomain", "h": "d", "tree": case["dom"], "out": {"exc": pylib.exc_name(e)}})
        return hist
    out, prob = pylib.observe_problem(layout.pretty(case["prob"]), dom)
    ev.append({"c": "ParseProblem", "h": "p", "d": "d", "tree": case["prob"], "out": out})
    if prob is None:
        return hist
    s0 = pylib.State(prob.initial_state_predicates, prob.initial_state_fluents, is_init=True)
    ev.append({"c": "InitialState", "h": "s0", "p": "p", "out": {"st": pylib.project_state(s0)}})
    plan = case["plan"]
    lines = ["(" + " ".join([n] + list(a)) + ")\n" for n, a in plan]
    runs = {}
    try:
        triplets = TrajectoryExporter(dom, allow_invalid_actions=case["allow"]).parse_plan(prob, action_sequence=lines)
        runs["r"] = triplets
        ev.append({"c": "RunPlan", "h": "r", "d": "d", "p": "p", "plan": plan, "allow": case["allow"], "out": {"steps": proj_steps(triplets)}})
    except Exception as e:  # noqa: BLE001
        ev.append({"c": "RunPlan", "h": "r", "d": "d", "p": "p", "plan": plan, "allow": case["allow"], "out": {"exc": pylib.exc_name(e)}})
        return hist
    try:
        text = "".join(TrajectoryExporter.export(triplets))
        ev.append({"c": "ExportTrajectory", "r": "r", "out": {"tree": sexp_reader.read(text)}})
        for with_problem in (True, False):
            p = pylib.write_tmp(text, ".trajectory")
            try:
                obs = TrajectoryParser(dom, prob if with_problem else None).parse_trajectory(p)
                comps = [{"pre": pylib.project_state(c.previous_state),
                          "op": [c.grounded_action_call.name, list(c.grounded_action_call.parameters)],
                          "post": pylib.project_state(c.next_state)} for c in obs.components]
                ev.append({"c": "ParseTrajectory", "r": "r", "withProblem": with_problem, "out": {"comps": comps}})
            except Exception as e:  # noqa: BLE001
                ev.append({"c": "ParseTrajectory", "r": "r", "withProblem": with_problem, "out": {"exc": pylib.exc_name(e)}})
            finally:
                os.unlink(p)
    except Exception as e:  # noqa: BLE001
        ev.append({"c": "ExportTrajectory", "r": "r", "out": {"exc": pylib.exc_name(e)}})
    # the same steps applied directly: an inapplicable step is an error unless allowed
    states = {"s0": s0}
    cur = "s0"
    for i, (n, a) in enumerate(plan):
        out, new = pylib.observe_apply(dom, n, list(a), prob.objects, states[cur], allow=case["allow"])
        h = f"n{i + 1}"
        ev.append({"c": "Apply", "d": "d", "u": "p", "act": n, "args": list(a), "s": cur, "h": h, "allow": case["allow"],
                   "skip": False, "out": out})
        if new is not None:
            states[h] = new
            cur = h
    snap = {k: pylib.project_state(v) for k, v in states.items()}
    snap["r"] = proj_steps(triplets)
    snap["d"] = domain_digest(dom)
    ev.append({"c": "Snap", "snap": snap})
    return hist
