import json, sys, gen_simplify, drive_simplify, tlc, collections
n=int(sys.argv[1]); seed=int(sys.argv[2])
with open('/verif/.work/sp.ndjson','w') as g:
    for i in range(n):
        g.write(json.dumps(drive_simplify.run_case(gen_simplify.gen_case(seed, i), {}))+"\n")
v, ex, st, outs = tlc.validate_traces('/verif/.work/sp.ndjson', '/verif/.work/spval', {"ForallPreDropped"}, shards=16, explain=False)
print(collections.Counter((x[0], tuple(x[1])) for x in v.values()), st)
H = {json.loads(l)['id']: json.loads(l) for l in open('/verif/.work/sp.ndjson')}
shown=collections.Counter()
for i,(f,k,nn) in sorted(v.items()):
    if f and shown[f]<3:
        shown[f]+=1
        e=H[i]['ev'][nn-1]
        print("=====", i, f, H[i]['shape'], "digits", e.get('digits'), "exact", e.get('exact'), e.get('how')); print(' '.join(H[i]['text'].split())); print(e['out'].get('texts'), e['out'].get('exc'))
