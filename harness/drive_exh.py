"""Replay of TLC-generated cases (Gen_Core): each case is a domain token tree over the fixed
two-object universe of spec/CoreFamily.tla; the library is driven over *every* state of the
universe and every binding, and the calls are recorded as table events for TraceApi."""
import itertools
import json
import sys

import layout
import pylib
from drive_core import domain_digest

OBJS = [["a", "t2"], ["b", "t1"]]
FACTS_ALL = [["p", ["a"]], ["p", ["b"]], ["q", ["a", "a"]], ["q", ["a", "b"]], ["q", ["b", "a"]], ["q", ["b", "b"]]]
FL_KEYS = [["f", ["a"]], ["f", ["b"]], ["g", []]]


def fl_vals(nvals):
    return [[0, 1], [3, 2]] if nvals == 2 else [[0, 1], [1, 1], [3, 2]]


def all_states(nvals, numeric=True):
    out = []
    for k in range(len(FACTS_ALL) + 1):
        for fs in itertools.combinations(FACTS_ALL, k):
            if numeric:
                for vs in itertools.product(fl_vals(nvals), repeat=len(FL_KEYS)):
                    out.append({"facts": [list(x) for x in fs], "fl": [[f, a, v] for (f, a), v in zip(FL_KEYS, vs)]})
            else:
                out.append({"facts": [list(x) for x in fs], "fl": [[f, a, [0, 1]] for f, a in FL_KEYS]})
    return out


ENVS = [[x, y] for x in ("a", "b") for y in ("a", "b")]


class Universe:
    """states are built once per process through the problem parser and shared by all cases
    (a State does not refer to the Domain object it was parsed against)"""

    def __init__(self, nvals, numeric):
        self.specs = all_states(nvals, numeric)
        self.states = None

    def build(self, dom):
        if self.states is None:
            self.states = [pylib.mk_state_via_problem(dom, OBJS, s["facts"], s["fl"])[0] for s in self.specs]
        return self.states


def run_case(case, uni, mode, layout_seed=None, sample=None):
    ev = []
    hist = {"id": case["id"], "ev": ev}
    tree = case["tree"]
    text = layout.pretty(tree) if layout_seed is None else layout.wild(tree, layout_seed)
    hist["text"] = text
    try:
        dom = pylib.parse_domain_text(text)
        out = {"vocab": pylib.vocab(dom), "digest": domain_digest(dom)}
    except Exception as e:  # noqa: BLE001
        ev.append({"c": "ParseDomain", "h": "d", "tree": tree, "out": {"exc": pylib.exc_name(e)}})
        return hist
    ev.append({"c": "ParseDomain", "h": "d", "tree": tree, "out": out})
    objects = pylib.mk_objects(dom, OBJS)
    ev.append({"c": "Objects", "h": "u", "d": "d", "objs": OBJS})
    states = uni.build(dom)
    idx = range(len(states)) if sample is None else sample
    for i in idx:
        ev.append({"c": "NewState", "h": f"s{i}", "st": uni.specs[i], "out": {"st": pylib.project_state(states[i])}})
    rows = []
    for i in idx:
        for args in ENVS:
            if mode == "pre":
                rows.append({"args": args, "s": f"s{i}", "out": pylib.observe_applicable(dom, "act", args, objects, states[i])})
            else:
                out, _ = pylib.observe_apply(dom, "act", args, objects, states[i])
                rows.append({"args": args, "s": f"s{i}", "allow": False, "skip": False, "out": out})
    ev.append({"c": "AppTable" if mode == "pre" else "ApplyTable", "d": "d", "u": "u", "act": "act", "rows": rows})
    # purity of the inputs: every state and the domain still have their value
    snap = {f"s{i}": pylib.project_state(states[i]) for i in idx}
    snap["d"] = domain_digest(dom)
    ev.append({"c": "Snap", "snap": snap})
    return hist
