"""Driver for the semantic core (C02, C03, C07-part, C12, C20 share it): executes cases
against the real library and records one event per public call at its return/raise.

case -> history {"id", "ev": [...]}  (see spec/TraceApi.tla for the event vocabulary)
"""
import hashlib
import json
import sys

import layout
import pylib
import sexp_reader
from pylib import Domain
from pddl_plus_parser.exporters import DomainExporter


def domain_digest(domain):
    """canonical digest of everything reachable from a Domain that the properties talk about"""
    parts = []
    try:
        parts.append(json.dumps(pylib.vocab(domain), sort_keys=True))
    except Exception as e:  # noqa: BLE001
        parts.append("vocab-exc:" + type(e).__name__)
    try:
        parts.append(DomainExporter().extract_domain(domain))
    except Exception as e:  # noqa: BLE001
        parts.append("export-exc:" + type(e).__name__)
    for name, a in sorted(domain.actions.items()):
        parts.append(name + ":" + ",".join(f"{k}-{v.name}" for k, v in a.signature.items()))
        try:
            parts.append(str(sorted(p.untyped_representation for p in a.discrete_effects)))
            parts.append(str(sorted(e.to_pddl() for e in a.numeric_effects)))
            parts.append(str(len(a.conditional_effects)) + "/" + str(len(a.universal_effects)))
        except Exception as e:  # noqa: BLE001
            parts.append("walk-exc:" + type(e).__name__)
    parts.append("fresh:" + ",".join(sorted(Domain().types)))
    return hashlib.sha1("\n".join(parts).encode()).hexdigest()[:16]


def used_states(dom, case, states):
    """for cases marked use_first: the states an operator is used on before its grounding is reported - the case's
    states and one without any fact (no entry for any predicate)"""
    if not case.get("use_first"):
        return ()
    out = list(states.values())
    try:
        fl = case["states"][0]["fl"] if case["states"] else []
        out.insert(0, pylib.mk_state_via_problem(dom, case["objs"], [], fl)[0])
    except Exception:  # noqa: BLE001
        pass
    return out


def run_case(case, layout_seed=None, snaps=True):
    ev = []
    hist = {"id": case["id"], "ev": ev}
    tree = case["tree"]
    text = layout.pretty(tree) if layout_seed is None else layout.wild(tree, layout_seed)
    hist["text"] = text if len(text) < 4000 else text[:4000]
    try:
        dom = pylib.parse_domain_text(text)
        out = {"vocab": pylib.vocab(dom), "digest": domain_digest(dom)}
    except Exception as e:  # noqa: BLE001
        ev.append({"c": "ParseDomain", "h": "d", "tree": tree, "out": {"exc": pylib.exc_name(e)}})
        return hist
    ev.append({"c": "ParseDomain", "h": "d", "tree": tree, "out": out})
    try:
        objects = pylib.mk_objects(dom, case["objs"])
    except Exception as e:  # noqa: BLE001  (a type the library did not register)
        ev.append({"c": "Harness", "what": "objects", "exc": pylib.exc_name(e)})
        return hist
    ev.append({"c": "Objects", "h": "u", "d": "d", "objs": case["objs"]})
    states = {}
    for i, st in enumerate(case["states"]):
        h = f"s{i}"
        try:
            state, _ = pylib.mk_state_via_problem(dom, case["objs"], st["facts"], st["fl"])
            states[h] = state
            ev.append({"c": "NewState", "h": h, "st": st, "out": {"st": pylib.project_state(state)}})
        except Exception as e:  # noqa: BLE001
            ev.append({"c": "NewState", "h": h, "st": st, "out": {"exc": pylib.exc_name(e)}})
            return hist
    nxt = 0
    seen_calls = set()
    opcache = {}
    for call in case["calls"]:
        key = (call["act"], tuple(call["args"]))
        if key not in seen_calls and case.get("ground", True):
            seen_calls.add(key)
            ev.append({"c": "Ground", "d": "d", "u": "u", "act": call["act"], "args": call["args"],
                       "out": pylib.observe_grounding(dom, call["act"], call["args"], objects,
                                                      used_on=used_states(dom, case, states))})
        sh = f"s{call['s']}" if isinstance(call["s"], int) else call["s"]
        if sh not in states:
            continue
        if call["mode"] == "ground":
            continue
        op = None
        if case.get("reuse_op"):
            # one Operator object per distinct call serves every query and transition of the case: what it answers
            # for a state does not depend on the states it has been used on before
            if key not in opcache:
                try:
                    opcache[key] = pylib.new_operator(dom, call["act"], call["args"], objects)
                except Exception:  # noqa: BLE001
                    opcache[key] = None
            op = opcache[key]
        if call["mode"] == "app":
            out = pylib.observe_applicable(dom, call["act"], call["args"], objects, states[sh], op=op)
            ev.append({"c": "IsApplicable", "d": "d", "u": "u", "act": call["act"], "args": call["args"],
                       "s": sh, "out": out})
        else:
            out, new_state = pylib.observe_apply(dom, call["act"], call["args"], objects, states[sh],
                                                 allow=call.get("allow", False), skip=call.get("skip", False), op=op)
            nxt += 1
            h = f"n{nxt}"
            ev.append({"c": "Apply", "d": "d", "u": "u", "act": call["act"], "args": call["args"], "s": sh,
                       "h": h, "allow": call.get("allow", False), "skip": call.get("skip", False), "out": out})
            if new_state is not None:
                states[h] = new_state
            if snaps:
                snap = {k: pylib.project_state(v) for k, v in states.items()}
                snap["d"] = domain_digest(dom)
                ev.append({"c": "Snap", "snap": snap})
    if case.get("rename"):
        rename_part(case, text, tree, objects, states, ev)
    if case.get("edit"):
        edit_part(case, text, tree, dom, objects, states, ev)
    for d in case.get("prints", []):
        ev.append(print_event(dom, d))
    for pr in case.get("big_probes", []):
        ev.append(big_probe_event(dom, case["objs"], objects, pr))
    return hist


def big_probe_event(dom, objs, objects, pr):
    """C12: a comparison of two values given as mixed numbers i + t/d at a magnitude that does not fit a 31-bit
    rational; the state is built from decimal text, the answer is that of the one-condition action c_<op>"""
    def text(v):
        i, t, d = v
        frac = f"{t / d:.10f}".split(".")[1].rstrip("0") or "0"
        return f"{i}.{frac}"
    try:
        ptext = (f"(define (problem bp) (:domain {dom.name}) (:objects {' '.join(f'{n} - {t}' for n, t in objs)})\n"
                 f"(:init (= (f o1) {text(pr['x'])}) (= (g) {text(pr['y'])})) (:goal (and)))")
        prob = pylib.parse_problem_text(ptext, dom)
        st = pylib.State(prob.initial_state_predicates, prob.initial_state_fluents, is_init=True)
        out = pylib.observe_applicable(dom, "c_" + pr["name"], ["o1"], objects, st)
    except Exception as e:  # noqa: BLE001
        out = {"exc": pylib.exc_name(e)}
    return {"c": "CmpProbe", "op": pr["op"], "x": pr["x"], "y": pr["y"], "out": out}


def print_event(dom, digits):
    """C12: print every numeric condition / unconditional numeric effect of each action with `digits` decimals,
    let the library re-read its own text, and hand the text to the specification"""
    import os
    from pddl_plus_parser.lisp_parsers import PDDLTokenizer
    from pddl_plus_parser.models import NumericalExpressionTree, construct_expression_tree
    act = dom.actions["act"]
    actual = int(os.environ.get("NUMERIC_PRECISION", 4)) if digits == "default" else digits
    try:
        pre = [c for _, c in act.preconditions if isinstance(c, NumericalExpressionTree)]
        texts_pre = [c.to_pddl() if digits == "default" else c.to_pddl(decimal_digits=digits) for c in pre]
        texts_eff = [c.to_pddl() if digits == "default" else c.to_pddl(decimal_digits=digits) for c in act.numeric_effects]
        ok = True
        for t in texts_pre + texts_eff:
            try:
                construct_expression_tree(PDDLTokenizer(pddl_str=t).parse(), dom.functions)
            except Exception:  # noqa: BLE001
                ok = False
        return {"c": "PrintExpr", "d": "d", "act": "act", "digits": actual,
                "out": {"pre": [sexp_reader.read(t) for t in texts_pre], "eff": [sexp_reader.read(t) for t in texts_eff],
                        "reparse_ok": ok, "texts": texts_pre + texts_eff}}
    except Exception as e:  # noqa: BLE001
        return {"c": "PrintExpr", "d": "d", "act": "act", "digits": actual, "out": {"exc": pylib.exc_name(e)}}


def edit_part(case, text, tree, dom, objects, states, ev):
    """further public surface: a shallow copy of the domain; on a second parse, a literal added to and then removed
    from the action's precondition (CompoundPrecondition.add_condition / remove_condition), with the same calls
    repeated after each edit"""
    from pddl_plus_parser.lisp_parsers.parsing_utils import parse_untyped_predicate
    try:
        sc = dom.shallow_copy()
        ev.append({"c": "ShallowCopy", "d": "d", "h": "dsc", "out": {"vocab": pylib.vocab(sc), "digest": domain_digest(sc)}})
        # the copy is independent: editing it leaves the original alone (checked by the next snapshot)
        for a in sc.actions.values():
            a.signature["?extra"] = dom.types["object"]
        sc.predicates.pop(next(iter(sc.predicates)), None)
    except Exception as e:  # noqa: BLE001
        ev.append({"c": "ShallowCopy", "d": "d", "h": "dsc", "out": {"exc": pylib.exc_name(e)}})
    ev.append({"c": "Snap", "snap": {"d": domain_digest(dom)}})
    lit = case["edit"]            # [positive, predicate, [terms]]
    try:
        dom2 = pylib.parse_domain_text(text)
        ev.append({"c": "ParseDomain", "h": "de", "tree": tree, "out": {"vocab": pylib.vocab(dom2), "digest": domain_digest(dom2)}})
    except Exception as e:  # noqa: BLE001
        ev.append({"c": "ParseDomain", "h": "de", "tree": tree, "out": {"exc": pylib.exc_name(e)}})
        return
    act = dom2.actions["act"]

    def replay(tag):
        k = 0
        for call in case["calls"]:
            sh = f"s{call['s']}" if isinstance(call["s"], int) else call["s"]
            if sh not in states or call["mode"] != "app":
                continue
            k += 1
            ev.append({"c": "IsApplicable", "d": "de", "u": "u", "act": "act", "args": call["args"], "s": sh,
                       "out": pylib.observe_applicable(dom2, "act", call["args"], objects, states[sh])})
    try:
        pred = parse_untyped_predicate([lit[1]] + list(lit[2]), act.signature, dom2.constants, is_positive=lit[0])
        act.preconditions.add_condition(pred)
        ev.append({"c": "AddLiteral", "d": "de", "act": "act", "lit": lit, "out": {"digest": domain_digest(dom2)}})
    except Exception as e:  # noqa: BLE001
        ev.append({"c": "AddLiteral", "d": "de", "act": "act", "lit": lit, "out": {"exc": pylib.exc_name(e)}})
        return
    replay("add")
    try:
        pred2 = parse_untyped_predicate([lit[1]] + list(lit[2]), act.signature, dom2.constants, is_positive=lit[0])
        act.preconditions.remove_condition(pred2)
        ev.append({"c": "RemoveLiteral", "d": "de", "act": "act", "lit": lit, "out": {"digest": domain_digest(dom2)}})
    except Exception as e:  # noqa: BLE001
        ev.append({"c": "RemoveLiteral", "d": "de", "act": "act", "lit": lit, "out": {"exc": pylib.exc_name(e)}})
        return
    replay("remove")


def rename_part(case, text, tree, objects, states, ev):
    """C18: a second parse of the same text, its action renamed in place, driven through the same calls"""
    m = case["rename"]
    try:
        dom2 = pylib.parse_domain_text(text)
        ev.append({"c": "ParseDomain", "h": "dr", "tree": tree, "out": {"vocab": pylib.vocab(dom2), "digest": domain_digest(dom2)}})
        act = dom2.actions["act"]
        try:
            act.change_signature(dict(m))
            out = {"sig": [[v, t.name] for v, t in act.signature.items()], "digest": domain_digest(dom2)}
        except Exception as e:  # noqa: BLE001
            out = {"exc": pylib.exc_name(e)}
        ev.append({"c": "Rename", "d": "dr", "act": "act", "map": m, "h": "d2", "out": out})
        if "exc" in out:
            return
    except Exception as e:  # noqa: BLE001
        ev.append({"c": "ParseDomain", "h": "dr", "tree": tree, "out": {"exc": pylib.exc_name(e)}})
        return
    k = 0
    for call in case["calls"]:
        sh = f"s{call['s']}" if isinstance(call["s"], int) else call["s"]
        if sh not in states or call["mode"] == "ground":
            continue
        if call["mode"] == "app":
            ev.append({"c": "IsApplicable", "d": "d2", "u": "u", "act": "act", "args": call["args"], "s": sh,
                       "out": pylib.observe_applicable(dom2, "act", call["args"], objects, states[sh])})
        else:
            out, _ = pylib.observe_apply(dom2, "act", call["args"], objects, states[sh], allow=call.get("allow", False),
                                         skip=call.get("skip", False))
            k += 1
            ev.append({"c": "Apply", "d": "d2", "u": "u", "act": "act", "args": call["args"], "s": sh, "h": f"r{k}",
                       "allow": call.get("allow", False), "skip": call.get("skip", False), "out": out})


def main():
    src, dst = sys.argv[1], sys.argv[2]
    with open(src) as f, open(dst, "w") as g:
        for line in f:
            case = json.loads(line)
            g.write(json.dumps(run_case(case, case.get("layout"))) + "\n")


if __name__ == "__main__":
    main()
