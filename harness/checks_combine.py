"""C17: combining per-agent domain / problem files."""
import glob
import json
import os

import gen_combine


def shipped_dirs():
    root = os.path.join(os.environ.get("VERIF_REPO", "/repo"), "tests", "multi_agent_tests")
    out = []
    for d in sorted(glob.glob(root + "/*/")):
        if glob.glob(d + "domain-*.pddl"):
            out.append(d.rstrip("/"))
    return out


def run(ctx):
    quick = ctx.quick
    hashseeds = (0, 1, 2) if quick else tuple(range(16))
    ctx.mc("MC_Combine", {"Three": "FALSE" if quick else "TRUE"}, ["OrderIndependent", "IsUnion"], workers=4, timeout=3600)
    ctx.mc("MC_Combine", {"Three": "FALSE"}, ["BadSkipKnown"], workers=4, expect_violation=True)
    cases = [gen_combine.split_case(ctx.seed, 130000 + i) for i in range(120 if quick else 2500)]
    # the shipped per-agent directories, in sorted and reversed discovery order
    k = 0
    for d in shipped_dirs():
        for rev in (False, True):
            k += 1
            cases.append({"id": 990000 + k, "dir": d, "reverse": rev})
    tf = ctx.drive("combine", cases, hashseeds=hashseeds)
    ctx.validate(tf, {c["id"]: c for c in cases}, driver="combine")
    n = 0
    for line in open(tf):
        h = json.loads(line)
        for e in h["ev"]:
            if e["c"] == "CombineDomains" and "vocab" in e["out"]:
                n += 1
                if len(e["parts"]) > 1:
                    ctx.nontrivial.add(h.get("text", "") + str(h["id"]))
        if len(ctx.samples) < 2:
            ctx.sample({"split": h.get("text", ""), "events": [e["c"] for e in h["ev"]]})
    ctx.extra["combinations"] = n
    ctx.extra["shipped_directories"] = [os.path.basename(d) for d in shipped_dirs()]
    ctx.rule = ("M: every cover of a small vocabulary by up to two (quick) / three parts x every discovery order x dummy flag: "
                "the union's vocabulary is order independent and is the union (a combiner that skips files whose actions are "
                "already known is refuted); V: generated typed domains split into 1-4 overlapping per-agent files (each with "
                "possibly a type, predicate and constant only it declares) and problems split into 1-3 files, combined under a "
                "forced discovery order (glob test double), preceded and followed by parsing unrelated typed / untyped domains; "
                "the shipped per-agent directories in both orders. TLC checks the combined vocabulary against "
                "Combine!UnionDomain of its own readings of the parts, the exported combination against it, the combined "
                "problem against the union of the parts, absence of duplicates, and - through the digest of every live domain, "
                "which includes Domain().types of a fresh Domain - that nothing else changed. distinct_nontrivial = distinct "
                "multi-part combinations")
