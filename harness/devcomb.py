import json, sys, gen_combine, drive_combine, tlc, collections
n=int(sys.argv[1]); seed=int(sys.argv[2])
with open('/verif/.work/cb.ndjson','w') as g:
    for i in range(n):
        g.write(json.dumps(drive_combine.run_case(gen_combine.split_case(seed, i), {}))+"\n")
v, ex, st, outs = tlc.validate_traces('/verif/.work/cb.ndjson', '/verif/.work/cbval', {"ForallPreDropped","GoalFluentUnchecked","RepeatedFluentArg"}, shards=16, explain=True)
print(collections.Counter((x[0], tuple(x[1])) for x in v.values()), st)
H = {json.loads(l)['id']: json.loads(l) for l in open('/verif/.work/cb.ndjson')}
print(collections.Counter(e['c'] for h in H.values() for e in h['ev']))
shown=set()
for i,(f,k,nn) in sorted(v.items()):
    if f and f not in shown:
        shown.add(f)
        print("=====", i, f, nn, H[i]['text'])
        e=H[i]['ev'][nn-1]; print(json.dumps({a:b for a,b in e.items() if a not in('tree','snap')})[:1800]); print(ex.get(i,'')[:800])
