"""Multi-agent driver (C15, C16): joint actions under permutations of their members, joint plans through the
multi-agent trajectory exporter (export, re-parse), and sequential -> joint plan conversion."""
import os
import random

import layout
import pylib
import gen_ma
import sexp_reader
from drive_core import domain_digest
from pddl_plus_parser.lisp_parsers import TrajectoryParser
from pddl_plus_parser.models import ActionCall
from pddl_plus_parser.multi_agent import MultiAgentTrajectoryExporter, PlanConverter
from pddl_plus_parser.multi_agent.common import apply_actions


def proj_joint_steps(triplets):
    out = []
    for t in triplets:
        ops = []
        for o in t.joint_action:
            c = sexp_reader.read_plain(str(o))
            ops.append([c[0], c[1:]])
        out.append({"pre": pylib.project_state(t.previous_state), "op": ops, "post": pylib.project_state(t.next_state)})
    return out


def run_case(case, opts):
    rng = random.Random(case["seed"])
    ev = []
    hist = {"id": case["id"], "ev": ev}
    dtext = layout.pretty(case["dom"])
    hist["text"] = " ".join(a for a, _ in case["acts"]) + " agents=" + ",".join(case["agents"])
    try:
        dom = pylib.parse_domain_text(dtext)
        ev.append({"c": "ParseDomain", "h": "d", "tree": case["dom"], "out": {"vocab": pylib.vocab(dom), "digest": domain_digest(dom)}})
    except Exception as e:  # noqa: BLE001
        ev.append({"c": "ParseDomain", "h": "d", "tree": case["dom"], "out": {"exc": pylib.exc_name(e)}})
        return hist
    out, prob = pylib.observe_problem(layout.pretty(case["prob"]), dom)
    ev.append({"c": "ParseProblem", "h": "p", "d": "d", "tree": case["prob"], "out": out})
    if prob is None:
        return hist
    s0 = pylib.State(prob.initial_state_predicates, prob.initial_state_fluents, is_init=True)
    ev.append({"c": "InitialState", "h": "s0", "p": "p", "out": {"st": pylib.project_state(s0)}})
    states = {"s0": s0}
    runs = {}
    agents = case["agents"]
    objs = case["objs"]
    acts = case["acts"]
    cnt = [0]

    def fresh(p):
        cnt[0] += 1
        return f"{p}{cnt[0]}"

    def calls_of(agent, state, want_applicable):
        """one call of `agent` (its first parameter), chosen among the library-applicable ones when asked"""
        cands = []
        for name, params in acts:
            if not params:
                if agent is None:
                    cands.append((name, []))
                continue
            if agent is None:
                continue
            for _ in range(4):
                pools = [[o for o, t in objs if gen_ma.conforms(t, ty)] for _, ty in params[1:]]
                if any(not pool for pool in pools):
                    continue
                args = [agent] + [rng.choice(pool) for pool in pools]
                cands.append((name, args))
        rng.shuffle(cands)
        if want_applicable:
            for name, args in cands:
                try:
                    if pylib.new_operator(dom, name, args, prob.objects).is_applicable(state):
                        return name, args
                except Exception:  # noqa: BLE001
                    pass
            return None
        return cands[0] if cands else None

    def enabled_later(agent, state, acc):
        """a call of `agent` that is inapplicable in `state` but applicable once the members chosen so far have acted
        (input selection only: such a member must be refused, whatever the others do to the accumulating state)"""
        for name, params in acts:
            if not params:
                continue
            for _ in range(6):
                pools = [[o for o, t in objs if gen_ma.conforms(t, ty)] for _, ty in params[1:]]
                if any(not pool for pool in pools):
                    break
                args = [agent] + [rng.choice(pool) for pool in pools]
                try:
                    op = pylib.new_operator(dom, name, args, prob.objects)
                    if not op.is_applicable(state) and op.is_applicable(acc):
                        return name, args
                except Exception:  # noqa: BLE001
                    pass
        return None

    def joint_for(state, p_app=0.85):
        members = []
        acc = state
        for ag in agents:
            r = rng.random()
            c = None
            if r >= 0.3:
                want = rng.random() < p_app
                if not want and acc is not state and rng.random() < 0.7:
                    c = enabled_later(ag, state, acc)
                if c is None:
                    c = calls_of(ag if r < 0.9 else None, state, want)
            members.append(["nop", []] if c is None else [c[0], c[1]])
            if c is not None:
                try:
                    acc = pylib.new_operator(dom, c[0], c[1], prob.objects).apply(acc, allow_inapplicable_actions=True)
                except Exception:  # noqa: BLE001
                    pass
        return members

    converter = PlanConverter(dom)
    ma_exporter = MultiAgentTrajectoryExporter(dom)
    ma_parser = TrajectoryParser(dom, prob)

    def snap():
        s = {k: pylib.project_state(v) for k, v in states.items()}
        for k, tr in runs.items():
            s[k] = proj_joint_steps(tr)
        s["d"] = domain_digest(dom)
        ev.append({"c": "Snap", "snap": s})

    for _ in range(case["n_ops"]):
        kind = rng.choices(["joint", "jplan", "convert"], weights=case.get("weights", [4, 2, 3]))[0]
        if kind == "joint":
            sh = rng.choice(list(states))
            members = joint_for(states[sh])
            allow = rng.random() < 0.15
            perms = [members]
            for _ in range(2):
                p = members[:]
                rng.shuffle(p)
                # nop padding at other positions: drop / add nops
                p = [m for m in p if m[0] != "nop" or rng.random() < 0.5]
                if rng.random() < 0.5:
                    p.insert(rng.randrange(len(p) + 1), ["nop", []])
                if p:
                    perms.append(p)
            try:
                from pddl_plus_parser.models import JointActionCall
                jc = JointActionCall([ActionCall(name=n, grounded_parameters=list(a)) for n, a in members])
                ev.append({"c": "JointCallProps", "members": members,
                           "out": {"count": jc.action_count, "operational": [[a.name, list(a.parameters)] for a in jc.operational_actions],
                                   "params": list(jc.joint_parameters)}})
            except Exception as e:  # noqa: BLE001
                ev.append({"c": "JointCallProps", "members": members, "out": {"count": -1, "operational": [], "params": [], "exc": pylib.exc_name(e)}})
            for p in perms:
                h = fresh("j")
                try:
                    new = apply_actions(dom, states[sh], [ActionCall(name=n, grounded_parameters=list(a)) for n, a in p],
                                        allow_inapplicable_actions=allow, problem_objects=prob.objects)
                    ev.append({"c": "ApplyJoint", "d": "d", "u": "p", "s": sh, "members": p, "allow": allow, "h": h,
                               "out": {"st": pylib.project_state(new)}})
                    states[h] = new
                except Exception as e:  # noqa: BLE001
                    ev.append({"c": "ApplyJoint", "d": "d", "u": "p", "s": sh, "members": p, "allow": allow, "h": h,
                               "out": {"exc": pylib.exc_name(e)}})
        elif kind == "jplan":
            plan, cur = [], s0
            for _ in range(rng.randint(1, 4)):
                members = joint_for(cur, 0.95)
                plan.append(members)
                try:
                    cur = apply_actions(dom, cur, [ActionCall(name=n, grounded_parameters=list(a)) for n, a in members if n != "nop"],
                                        allow_inapplicable_actions=True, problem_objects=prob.objects)
                except Exception:  # noqa: BLE001
                    break
            if not plan:
                continue
            allow = rng.random() < 0.2
            lines = ["[" + ",".join("(" + " ".join([n] + list(a)) + ")" if n != "nop" else "(nop )" for n, a in members) + "]\n"
                     for members in plan]
            h = fresh("jr")
            try:
                if rng.random() < 0.5:
                    triplets = ma_exporter.parse_plan(prob, action_sequence=lines, allow_inapplicable_actions=allow)
                else:       # the same joint plan given as a file
                    pp = pylib.write_tmp("".join(lines), ".plan")
                    try:
                        triplets = ma_exporter.parse_plan(prob, plan_path=pp, allow_inapplicable_actions=allow)
                    finally:
                        os.unlink(pp)
                runs[h] = triplets
                ev.append({"c": "RunJointPlan", "h": h, "d": "d", "p": "p", "plan": plan, "allow": allow,
                           "out": {"steps": proj_joint_steps(triplets)}})
            except Exception as e:  # noqa: BLE001
                ev.append({"c": "RunJointPlan", "h": h, "d": "d", "p": "p", "plan": plan, "allow": allow, "out": {"exc": pylib.exc_name(e)}})
                snap()
                continue
            try:
                text = "".join(MultiAgentTrajectoryExporter.export(triplets))
                ev.append({"c": "ExportJointTrajectory", "r": h, "out": {"tree": sexp_reader.read(text)}})
                p = pylib.write_tmp(text, ".trajectory")
                if rng.random() < 0.5:      # written by the library itself
                    ma_exporter.export_to_file(triplets, p)
                try:
                    obs = ma_parser.parse_trajectory(p, executing_agents=agents)
                    comps = [{"pre": pylib.project_state(c.previous_state),
                              "op": [[a.name, list(a.parameters)] for a in c.grounded_joint_action.actions],
                              "post": pylib.project_state(c.next_state)} for c in obs.components]
                    ev.append({"c": "ParseJointTrajectory", "r": h, "out": {"comps": comps}})
                except Exception as e:  # noqa: BLE001
                    ev.append({"c": "ParseJointTrajectory", "r": h, "out": {"exc": pylib.exc_name(e)}})
                finally:
                    os.unlink(p)
            except Exception as e:  # noqa: BLE001
                ev.append({"c": "ExportJointTrajectory", "r": h, "out": {"exc": pylib.exc_name(e)}})
        else:
            # a valid sequential plan: a walk of library-applicable single actions (input selection only)
            plan, cur = [], s0
            for _ in range(rng.randint(2, 8)):
                ag = rng.choice(agents)
                c = calls_of(ag, cur, True)
                if c is None:
                    continue
                plan.append([c[0], c[1]])
                cur = pylib.new_operator(dom, c[0], c[1], prob.objects).apply(cur)
            if not plan:
                continue
            cc = rng.random() < 0.5
            text = "".join(f"{i}: (" + " ".join([n.upper() if rng.random() < 0.3 else n] + list(a)) + ")\n" for i, (n, a) in enumerate(plan))
            p = pylib.write_tmp(text, ".solution")
            # one converter object serves the whole history; the caller lists the agents in an order of its own
            order = agents[:]
            if rng.random() < 0.5:
                rng.shuffle(order)
            try:
                joint = converter.convert_plan(prob, p, order, should_validate_concurrency_constraint=cc)
                out = {"joint": [[[a.name, list(a.parameters)] for a in j.actions] for j in joint]}
                # the plan file the converter writes: one line per joint action, the same members in the same slots
                fp = pylib.write_tmp("", ".jointplan")
                try:
                    converter.export_plan(fp, joint)
                    import re as _re
                    out["file"] = [[[w.split()[0], w.split()[1:]] for w in _re.findall(r"\(([^()]*)\)", ln)]
                                   for ln in open(fp, encoding="utf-8").read().split("\n") if ln.strip()]
                finally:
                    os.unlink(fp)
            except Exception as e:  # noqa: BLE001
                out = {"exc": pylib.exc_name(e), "joint": []}
            finally:
                os.unlink(p)
            ev.append({"c": "ConvertPlan", "d": "d", "p": "p", "plan": plan, "agents": order, "cc": cc, "out": out})
        snap()
    return hist
