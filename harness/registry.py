"""property id -> (check function, claimed level)"""
import json
import sys

import checks_core
import checks_sexp
import checks_types
import checks_problem
import checks_hist
import checks_domain
import checks_numeric
import checks_ma
import checks_combine
import checks_log
import checks_simplify

CHECKS = {
    "C02": (lambda ctx: checks_core.run_core(ctx, "pre"), "model_checking"),
    "C03": (lambda ctx: checks_core.run_core(ctx, "eff"), "model_checking"),
    "C11": (checks_sexp.run, "model_checking"),
    "C06": (checks_types.run, "model_checking"),
    "C05": (checks_problem.run, "model_checking"),
    "C01": (checks_domain.run_c01, "model_checking"),
    "C12": (checks_numeric.run, "model_checking"),
    "C15": (checks_ma.run_c15, "model_checking"),
    "C16": (checks_ma.run_c16, "model_checking"),
    "C17": (checks_combine.run, "model_checking"),
    "C13": (checks_simplify.run, "exploration"),
    "C19": (checks_log.run, "exploration"),
    "C20": (checks_core.run_c20, "model_checking"),
    "C18": (checks_core.run_c18, "model_checking"),
    "C04": (checks_hist.run_c04, "model_checking"),
    "C08": (checks_domain.run_c08, "translation_validation"),
    "C09": (checks_domain.run_c09, "model_checking"),
    "C07": (checks_hist.run_c07, "model_checking"),
    "C10": (checks_hist.run_c10, "model_checking"),
    "C14": (checks_hist.run_c14, "model_checking"),
}


CORE_NOTE = ("Bounded, not proved: exhaustive only inside the enumerated family (spec/CoreFamily.tla) and the sampled "
             "states; beyond it random. Trusted base: harness/sexp_reader.py, layout.py, pylib.py projection, TLC and the "
             "CommunityModules Json/IOUtils overrides.")

META = {
    "C02": {"engine": "M+G+V", "design_ref": "DESIGN.md section 6 (C02)", "note": CORE_NOTE,
            "technique": "TLC model checking of Holds3 (fold-order refinement, negative controls) + TLC-generated formulas "
                         "replayed into Operator.is_applicable + trace validation against PddlApi",
            "text": "Every formula of a bounded family x every state of a two-object typed universe x every binding is "
                    "model-checked in the TLA+ specification (any-order operand fold refines the declarative truth value); "
                    "the same family is rendered by the spec, parsed and evaluated by the library, and each recorded answer "
                    "is judged by TLC against PddlApi!IsApplicable_Exp; random larger formulas are trace-validated."},
    "C03": {"engine": "M+G+V", "design_ref": "DESIGN.md section 6 (C03)", "note": CORE_NOTE,
            "technique": "TLC model checking of Succ (any-order group application refines it; frame; negative controls) + "
                         "TLC-generated effect lists replayed into Operator.apply + trace validation",
            "text": "Every effect list of a bounded family x every state x every binding is model-checked (applying the "
                    "firing groups one at a time in any order equals the declarative successor; frame condition); the same "
                    "family is replayed into Operator.apply and each serialized successor, read back independently, is "
                    "judged by TLC against PddlApi!Apply_Exp; random larger actions are trace-validated."},
}
META["C11"] = {
    "engine": "M+V", "design_ref": "DESIGN.md section 6 (C11)",
    "note": "Exhaustive to the stated length only; beyond it random structured texts. Trusted base: the driver that turns "
            "the library's nested lists into tagged trees; the harness' own reader is validated by the same vectors.",
    "technique": "TLC model checking that a one-pass character-level reader refines the declarative tokens+parse reading "
                 "on all short texts, plus trace validation of PDDLTokenizer outcomes against Sexp!Read",
    "text": "MC_Sexp enumerates every text up to the bound and checks the small-step reader against the declarative "
            "reading (plus case-insensitivity and no-trailing laws; as-found variants are refuted); every such text and "
            "random structured texts are fed to PDDLTokenizer from string and from file and TLC judges each outcome."}
META["C06"] = {
    "engine": "M+G+V", "design_ref": "DESIGN.md section 6 (C06)",
    "note": "Exhaustive over forests on 4/5 names and their renderings; larger forests random. The forest is read from the "
            "same tokens by the specification; trusted base as for C01.",
    "technique": "TLC model checking that the two-phase declaration pass is order independent (one-pass variant refuted) + "
                 "TLC-generated renderings replayed into DomainParser / is_sub_type / ProblemParser / forall effects, judged by TLC; "
                 "MC_Registry (several domains in one process, sharing mistakes refuted) with its behaviours replayed",
    "text": "MC_Types enumerates every forest, declaration order, grouping and spelling and checks that reading the "
            "declarations back yields the forest's closure; the renderings are driven through the library and every subtype "
            "answer, hierarchy edge, typed-fact acceptance and forall range is judged against the spec's reading."}
META["C05"] = {
    "engine": "M+G+V", "design_ref": "DESIGN.md section 6 (C05)",
    "note": "Exhaustive over the single-point corruptions of the family's base problems; random beyond. Known finding "
            "GoalFluentUnchecked (numeric goal fluents are not validated).",
    "technique": "TLC model checking of WFProblem over a problem family and all its single-point corruptions + those problems "
                 "rendered by the spec and replayed into ProblemParser + trace validation of random problems",
    "text": "MC_Problem checks that every base problem is well formed, is read back unchanged from its rendering in every "
            "object-list style, and that every single-point corruption is ill formed; the rendered problems and random "
            "ones are parsed by the library and TLC judges acceptance (iff WFProblem) and the parsed content."}
HIST_NOTE = ("Trace validation decides only the executions explored; the exhaustive part is the plan family of the "
             "micro-domain. Trusted base: projection through serialize() + independent reader, domain digest function.")
META["C04"] = {
    "engine": "M+G+V", "design_ref": "DESIGN.md section 6 (C04)", "note": HIST_NOTE,
    "technique": "TLC model checking that the incremental plan executor refines Plan!Run (chain, refusal rule; as-found variants "
                 "refuted) + TLC-generated plans replayed through TrajectoryExporter + trace validation of random plans",
    "text": "MC_Plan grows every plan call by call and checks the incremental trajectory against the declarative run, the chain "
            "and the refusal rule; every plan is replayed through TrajectoryExporter.parse_plan/export and Operator.apply and "
            "TLC recomputes each triplet; random plans over random typed domains are trace-validated."}
META["C07"] = {
    "engine": "M+G+V", "design_ref": "DESIGN.md section 6 (C07)", "note": HIST_NOTE + " Thread "
            "interleavings: one pre-emption at line granularity (sys.settrace), not bytecode-level races.",
    "technique": "TLC model of the object model as a machine over a heap of mutable containers (MC_Api: Faithful holds, the two "
                 "aliasing designs are refuted) and of threads sharing one domain (MC_Threads: every interleaving at the grain of shared-heap "
                 "accesses, the two sharing designs refuted with one pre-emption); their behaviours / schedules replayed into the library and random API-call histories are "
                 "validated against the PddlApi store: after every call every live handle still has its stored value",
    "text": "MC_Api behaviours (exhaustive short, simulated long) and random call histories over one shared domain are recorded with a snapshot of every live handle after each call; "
            "the trace specification checks store'[h] = store[h] for all handles and that each call's result equals the "
            "specification's, so aliasing between an earlier result and a later call is a rejected trace."}
META["C10"] = {
    "engine": "G+V", "design_ref": "DESIGN.md section 6 (C10)", "note": HIST_NOTE,
    "technique": "trace validation: exported trajectory text read by an independent reader and the Observation parsed back are "
                 "compared by TLC with the triplets of the run (PddlApi store)",
    "text": "For TLC-generated and random plans the exported trajectory text and the observation parsed from it (with and "
            "without the problem) are judged by TLC against the run's triplets: alternation, headers, calls, states, chain."}
META["C14"] = {
    "engine": "M+G+V", "design_ref": "DESIGN.md section 6 (C14)", "note": HIST_NOTE,
    "technique": "TLC model MC_Api (copy / == / apply over a heap: Faithful, EqSound) with its behaviours replayed into the "
                 "library; trace validation of ==, copy and serialization of states reached through different operation "
                 "sequences against the specification's state equality",
    "text": "States reached by parsing, successors, copies and re-parsed trajectories are compared with ==, copied and "
            "snapshotted; TLC judges every answer with StEq on the stored abstract values and every snapshot for independence."}
META["C01"] = {
    "engine": "M+G+V", "design_ref": "DESIGN.md section 6 (C01)",
    "note": "Faithfulness of bodies is observed through behaviour (applicability / successor) over a small universe, never "
            "through the library's internal formula objects. Trusted base: independent reader, layout writer, projection.",
    "technique": "TLC reads the same token tree as the library (Grammar!DomainOfTree) and judges vocabulary and behaviour; "
                 "MC_Grammar model-checks render/read round trip and fragment classification; lenient forms are generated by the spec",
    "text": "The PDDL grammar lives in the specification: TLC reads each domain text (as a token tree from an independent "
            "reader) into an AST, compares the library's vocabulary with it and judges the library's applicability / successor "
            "answers against the AST's semantics; forms outside the fragment must be faithful or raise."}
META["C08"] = {
    "engine": "V(+M)", "design_ref": "DESIGN.md section 6 (C08-C10)",
    "note": "Translation validation of each export: two programs (source domain and exported text, both read by the "
            "specification) must have equal vocabulary and equal behaviour tables over the universe; bounded by the states / "
            "calls examined. Trusted base: independent reader.",
    "technique": "per-export translation validation inside TLC: the exported text is read by the TLA+ grammar and its actions' "
                 "Holds/Succ tables are compared with the source's over the whole small universe",
    "text": "Every exported domain text is re-read by the specification and proved equivalent to the source on the explored "
            "universe (vocabulary equality, applicability and successor equality for every call and state), twice in a row; "
            "the library's own re-parse must have the same vocabulary."}
META["C09"] = {
    "engine": "V(+M)", "design_ref": "DESIGN.md section 6 (C08-C10)",
    "note": "Bounded by the generated / shipped problems. Known finding GoalFluentUnchecked does not affect well-formed problems.",
    "technique": "trace validation: exported problem text read by the TLA+ grammar and compared with the stored problem; "
                 "library re-parse judged by ParseProblem",
    "text": "Each problem is parsed, exported, read by the specification from the exported text and compared field by field "
            "with the source; the library's re-parse of the text is judged like any other problem parse, and exported again."}
META["C20"] = {
    "engine": "G+V(+M)", "design_ref": "DESIGN.md section 6 (C20)", "note": CORE_NOTE + " Universally quantified conditions / "
            "effects are not part of the reported grounding and are not compared. Known finding RepeatedFluentArg.",
    "technique": "trace validation of the grounded literal / effect / expression sets and typed call against substitution defined "
                 "in the TLA+ spec, on TLC-enumerated and random (action, call) pairs",
    "text": "For every (action, call) pair the reported grounded precondition literals (untyped and typed), add/delete sets per "
            "effect group, grounded numeric expressions and the typed call are judged by TLC against position-wise "
            "substitution of the call's arguments into the AST the spec read from the same text."}
META["C18"] = {
    "engine": "M+V", "design_ref": "DESIGN.md section 6 (C18)", "note": CORE_NOTE,
    "technique": "TLC model checking that simultaneous substitution preserves shape and behaviour (sequential in-place renaming "
                 "refuted) + trace validation of Action.change_signature on a second parse against Rename!RenameAction",
    "text": "MC_Rename checks over the bounded family and six maps that the renamed action has the same parameters up to "
            "renaming and the same Holds/Succ for every state and call; random actions are renamed in the library and the "
            "renamed copy's answers are judged against the spec's renamed AST."}
META["C12"] = {
    "engine": "M+V", "design_ref": "DESIGN.md section 6 (C12), 5.1",
    "note": "Exact rational arithmetic in the spec versus doubles in the library: generated values are dyadic / short decimals; "
            "the single point 'exactly one tolerance apart' is left open. 32-bit integers bound magnitudes (10^5 at the default "
            "tolerance, 10^6 at 0.01).",
    "technique": "TLC model checking of Eval / CmpTol laws (stack-machine refinement, negative controls) + trace validation of "
                 "boundary probes, deep expression trees and print/re-read under three environment configurations",
    "text": "MC_Numeric checks evaluation order and the comparison laws in the spec; per EPSILON / NUMERIC_PRECISION setting the "
            "library answers boundary probes, evaluates deep expressions and prints constants, and TLC judges each answer "
            "against Semantics!Eval / Rat!CmpTol and each printed text against the source expression."}
META["C15"] = {
    "engine": "M+V", "design_ref": "DESIGN.md section 6 (C15), Appendix C",
    "note": "Any conversion satisfying the five clauses is accepted (greedy / maximal packing is not required). Known finding "
            "ConvertNonCommuting. Bounded by the plans explored.",
    "technique": "TLC model checking of a greedy packer against ValidConversion (weakened interference test refuted) + trace "
                 "validation of PlanConverter.convert_plan: TLC evaluates ValidConversion on each returned joint plan",
    "text": "MC_Convert enumerates every valid plan of a micro multi-agent domain and checks that semantic-interference packing "
            "is a valid conversion; the library's converter is run on random valid plans and TLC checks conservation, "
            "per-agent order, slots, applicability + commutation per step and final-state equality, all computed by the spec."}
META["C16"] = {
    "engine": "M+V", "design_ref": "DESIGN.md section 6 (C16)",
    "note": "Non-commuting member sets are left open (the property's premise). Bounded by the joint actions explored.",
    "technique": "trace validation of apply_actions / MultiAgentTrajectoryExporter against MultiAgent!JointExp (sequential "
                 "application under every permutation when the members commute; refusal rule), plus MC_Convert's JointOrderFree",
    "text": "Each joint action is applied in several arrangements of its members and nops; TLC decides whether the members are "
            "applicable and commute and, if so, demands the state of the sequential application; inapplicable members must be "
            "refused unless allowed; exported joint trajectories and their re-parse are compared with the run."}
META["C17"] = {
    "engine": "M+V", "design_ref": "DESIGN.md section 6 (C17)",
    "note": "The discovery order is forced through a Path subclass whose glob() yields the real matches in the chosen order (a "
            "test double for the file system, not for the library). Conflicting declarations of one name in two files are not "
            "generated.",
    "technique": "TLC model checking that the union's vocabulary is order independent (skip-known-actions combiner refuted) + "
                 "trace validation of locate_domains / export_combined_domain / combine_problems against Combine!UnionDomain",
    "text": "Per-agent files are parsed one by one (the spec reads each), combined under a forced discovery order, exported and "
            "re-parsed; TLC compares the combination with the union of its own readings and checks through digests that "
            "previously parsed and freshly created domains are untouched; problems likewise, including duplicates."}
META["C19"] = {
    "engine": "V(+M)", "design_ref": "DESIGN.md section 6 (C19), 10",
    "note": "No design-level theorem: the spec is an oracle over an enumerated layout space; the lexer is trusted.",
    "technique": "trace validation of MetricFFParser / ENHSPParser results against PlannerLog!PlanOf / Status on tokenised logs "
                 "(plus a small TLC model of the oracle itself)",
    "text": "Generated and shipped logs are parsed by the library; TLC recomputes status and plan from the tokenised lines and "
            "compares action list, order, arguments and the written plan file."}
META["C13"] = {
    "engine": "V", "design_ref": "DESIGN.md section 6 (C13), 10",
    "note": "Equivalence is decided by exact evaluation on a rational grid inside TLC, not by algebra; coefficient magnitudes "
            "are bounded by 32-bit integers. Known finding ConstantConditionPrinted.",
    "technique": "trace validation: source and simplified conditions are both read by the TLA+ grammar and compared by exact "
                 "evaluation on a grid of rational valuations (CondEquiv), plus structural checks",
    "text": "Each simplified output is re-read by the library and by the specification; TLC checks it uses only binary "
            "+ - * / and has the same truth value as the source conditions at every grid valuation (exactly, or outside the "
            "rounding band when coefficients are not representable at the requested digits)."}
NOT_YET = {}


def replay(pid, path):
    """re-execute a stored case against the working tree and re-validate it"""
    from common import Ctx
    from tlc import MachineryError
    data = json.loads(open(path).read())
    ctx = Ctx(pid + "-replay", "quick", 0, CHECKS[pid][1])
    ctx.pid = pid
    ctx.set_known(pid)
    try:
        if data.get("case") is not None and data.get("driver"):
            tf = ctx.drive(data["driver"], [data["case"]], opts=data.get("opts"), env=data.get("env") or None)
        else:
            tf = ctx.work / "h.ndjson"
            tf.write_text(json.dumps(data["history"]) + "\n")
        ctx.validate(tf, {data["case"]["id"]: data["case"]} if data.get("case") else None, driver=data.get("driver"),
                     opts=data.get("opts"), shards=1, module=data.get("module", "MCTrace"), eps=data.get("eps", "EpsDefault"),
                     sparse=data.get("sparse", False), n_records=1)
    except MachineryError as e:
        print("MACHINERY-FAILURE", e)
        return 2
    for what, rp in ctx.violations:
        print(f"VIOLATION property={pid} replay={rp}  [{what}]")
    import shutil
    shutil.rmtree(ctx.work, ignore_errors=True)
    return 1 if ctx.violations else 0
