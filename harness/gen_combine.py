"""C17 inputs: a generated domain / problem split into 1-4 overlapping per-agent files."""
import random

import gen_core
import gen_hist
from gen_core import S, L, typed, PREDS, FUNCS, CONSTS, TYPES


def split_case(seed, cid):
    rng = random.Random(seed * 15485863 + cid)
    k = rng.choice([1, 2, 2, 3, 3, 4])
    dom, acts = gen_hist.gen_domain(rng, n_actions=rng.choice([3, 4, 5]))
    # the action sub-trees of the generated domain
    act_trees = [c for c in dom["c"] if c["t"] == "l" and c["c"] and c["c"][0].get("v") == ":action"]
    parts = []
    for i in range(k):
        parts.append({"acts": [], "preds": set(), "funcs": set(), "consts": set(), "xtypes": []})
    for a in act_trees:
        owners = [i for i in range(k) if rng.random() < 0.5] or [rng.randrange(k)]
        for i in owners:
            parts[i]["acts"].append(a)
    # every part declares what its actions use (everything, to stay on the safe side: all predicates
    # and functions that occur in the action text) plus a random extra share; some declarations live in one part only
    for i, p in enumerate(parts):
        used = set()
        for a in p["acts"]:
            _symbols(a, used)
        p["preds"] = {x for x in PREDS if x in used}
        p["funcs"] = {x for x in FUNCS if x in used}
        p["consts"] = {c for c, _ in CONSTS if c in used}
    for name in PREDS:
        for i in [j for j in range(k) if rng.random() < 0.4] or [rng.randrange(k)]:
            parts[i]["preds"].add(name)
    for name in FUNCS:
        for i in [j for j in range(k) if rng.random() < 0.4] or [rng.randrange(k)]:
            parts[i]["funcs"].add(name)
    for c, _ in CONSTS:
        parts[rng.randrange(k)]["consts"].add(c)
    for i, p in enumerate(parts):
        if rng.random() < 0.6:                  # a type, predicate and constant only this part declares
            p["xtypes"].append([f"xt{i}", rng.choice(["object", "t1"])])
            p["xpred"] = f"xp{i}"
            p["xconst"] = f"xc{i}"
    trees = []
    for i, p in enumerate(parts):
        types = list(TYPES) + p["xtypes"]
        if rng.random() < 0.6:      # declaration lines in any order: children before their parents
            rng.shuffle(types)
        preds = [L(S(n), *typed([[f"?a{j}", t] for j, t in enumerate(PREDS[n])])) for n in PREDS if n in p["preds"]]
        if p.get("xpred"):
            preds.append(L(S(p["xpred"]), *typed([["?a0", p["xtypes"][0][0]]])))
        consts = [[c, t] for c, t in CONSTS if c in p["consts"]]
        if p.get("xconst"):
            consts.append([p["xconst"], p["xtypes"][0][0]])
        funcs = [L(S(n), *typed([[f"?a{j}", t] for j, t in enumerate(FUNCS[n])])) for n in FUNCS if n in p["funcs"]]
        body = [S("define"), L(S("domain"), S("dom")), L(S(":requirements"), S(":typing")), L(S(":types"), *typed(types))]
        if consts:
            body.append(L(S(":constants"), *typed(consts)))
        body.append(L(S(":predicates"), *preds))
        if funcs:
            body.append(L(S(":functions"), *funcs))
        body += p["acts"]
        trees.append(L(*body))
    # problem split
    objs = list(gen_core.OBJS)
    st = gen_core.random_state(rng, objs, density=0.3)
    goal_pool = rng.sample(gen_core.ground_atoms(objs), 4)
    cmp_pool = [L(S(">="), L(S("f"), S("o1")), gen_core.N(1)), L(S("<"), L(S("g")), gen_core.N(10))]
    ptrees = []
    kp = rng.choice([1, 2, 3])
    bare = rng.randrange(kp) if kp >= 2 and rng.random() < 0.35 else None
    consts = {c for c, _ in CONSTS}
    for i in range(kp):
        facts = [f for f in st["facts"] if rng.random() < 0.6]
        fl = [f for f in st["fl"] if rng.random() < 0.6]
        goals = [g for g in goal_pool if rng.random() < 0.6]
        cmps = [c for c in cmp_pool if rng.random() < 0.6]
        part_objs = objs
        if i == bare:
            # an agent file that declares no objects: what it says is about constants and parameterless symbols only
            part_objs = []
            facts = [f for f in st["facts"] if set(f[1]) <= consts]
            fl = [f for f in st["fl"] if set(f[1]) <= consts]
            goals = [g for g in goal_pool if set(g[1]) <= consts]
            cmps = [c for c in cmp_pool if "o1" not in str(c)]
        items = [L(S(p), *[S(x) for x in a]) for p, a in facts] + \
                [L(S("="), L(S(f), *[S(x) for x in a]), {"t": "n", "v": v}) for f, a, v in fl]
        gitems = [L(S(p), *[S(x) for x in a]) for p, a in goals] + cmps
        ptrees.append(L(S("define"), L(S("problem"), S("cp")), L(S(":domain"), S("dom")), L(S(":objects"), *typed(part_objs)),
                        L(S(":init"), *items), L(S(":goal"), L(S("and"), *gitems))))
    dorder = list(range(k))
    rng.shuffle(dorder)
    porder = list(range(kp))
    rng.shuffle(porder)
    return {"id": cid, "domains": trees, "problems": ptrees, "dorder": dorder, "porder": porder, "dummy": rng.random() < 0.3,
            "objs": objs}


def _symbols(tree, acc):
    if tree["t"] == "s":
        acc.add(tree["v"])
    elif tree["t"] == "l":
        for c in tree["c"]:
            _symbols(c, acc)
