"""C12: arithmetic, tolerance comparisons under the EPSILON / NUMERIC_PRECISION settings, printing."""
import json
import random

import gen_numeric

CONFIGS = [  # (EPSILON env or None, spec constant, NUMERIC_PRECISION env or None, magnitudes for boundary probes)
    (None, "EpsDefault", None, [0, 1, 100, 10000, 100000]),
    ("0.01", "EpsCoarse", "2", [0, 1, 100, 10000, 1000000]),
    ("0.25", "EpsQuarter", "6", [0, 3, 1000, 1000000]),
    # exact comparisons: the legal setting EPSILON=0; pairs 1/16384 apart (less than the default tolerance)
    ("0", "EpsZero", None, [0, 1, 100]),
]
EPS_VAL = {"EpsDefault": "1/10000", "EpsCoarse": "1/100", "EpsQuarter": "1/4", "EpsZero": "0"}


def run(ctx):
    quick = ctx.quick
    rng = random.Random(ctx.seed)
    ctx.mc("MC_Numeric", {}, ["StackRefines", "OperandOrder", "NestedMinus", "CmpLaws"], workers=8)
    ctx.mc("MC_Numeric", {}, ["BadSwapped"], workers=4, expect_violation=True)
    ctx.mc("MC_Numeric", {}, ["BadLeNoTol"], workers=4, expect_violation=True)
    n_probe = 0
    for ci, (eps_env, eps_const, prec_env, mags) in enumerate(CONFIGS):
        env = {}
        if eps_env:
            env["EPSILON"] = eps_env
        if prec_env:
            env["NUMERIC_PRECISION"] = prec_env
        if eps_const == "EpsZero":
            cases = [gen_numeric.probe_case(1000 * ci + 1, "0", mags, half="1/16384")]
        else:
            cases = [gen_numeric.probe_case(1000 * ci + 1, EPS_VAL[eps_const], mags),
                     gen_numeric.big_probe_case(1000 * ci + 2, EPS_VAL[eps_const])]
            for i in range(40 if quick else 800):
                cases.append(gen_numeric.deep_case(ctx.seed, 1000000 * (ci + 1) + i))
            for i in range(30 if quick else 600):
                cases.append(gen_numeric.print_case(rng, 2000000 * (ci + 1) + i))
        tf = ctx.drive("core", cases, hashseeds=(0, 1) if quick else tuple(range(8)), opts={"snaps": False}, env=env)
        ctx.validate(tf, {c["id"]: c for c in cases}, driver="core", opts={"snaps": False}, eps=eps_const)
        for line in open(tf):
            h = json.loads(line)
            for e in h["ev"]:
                if e["c"] == "IsApplicable" and e["act"].startswith(("c_", "r_")):
                    n_probe += 1
                if e["c"] == "CmpProbe":
                    n_probe += 1
                if e["c"] == "PrintExpr" and "texts" in e["out"]:
                    for t in e["out"]["texts"]:
                        ctx.nontrivial.add((e["digits"], t))
                    if len(ctx.samples) < 3 and e["out"]["texts"]:
                        ctx.sample({"config": {"EPSILON": eps_env, "NUMERIC_PRECISION": prec_env}, "digits": e["digits"],
                                    "printed": e["out"]["texts"][:2]})
    ctx.extra["boundary_probe_answers"] = n_probe
    ctx.extra["configurations"] = [{"EPSILON": a or "default", "NUMERIC_PRECISION": c or "default"} for a, _, c, _ in CONFIGS]
    ctx.rule = ("M: every expression tree to depth 2 x 16 valuations (stack-machine evaluation refines Eval; operand-order laws) "
                "and 225 comparison probes; V per configuration (EPSILON default/0.01/0.25 and 0 = exact, NUMERIC_PRECISION default/2/6, one "
                "driver process each): one-condition actions on value pairs 0,1,2,4 half-tolerances apart (both orders, all five "
                "operators) at magnitudes up to 10^5..10^6, and as mixed numbers (translation-invariant comparison) at 10^6..10^9; random actions with expression trees to depth 4 (applicability and "
                "assign/increase/decrease successors); actions with constants of up to 5 decimals printed with 0..6 decimals and "
                "with the configured default, re-read by the library and by the independent reader. distinct_nontrivial = "
                "distinct (digits, printed expression) pairs")
    ctx.assumptions += ["a comparison exactly one tolerance apart admits both answers (binary floating point)",
                        "printed constants are compared in ticks of 10^-5 (generated constants have at most 5 decimals)"]
