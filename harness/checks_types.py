"""C06: the subtype relation is the closure of the declared forest in any declaration order."""
import json
import random

from gen_core import S


def random_rendering(rng, cid):
    """a random forest on 5..9 names (depth <= 4, width <= 4) in a random declaration order/grouping"""
    n = rng.randint(5, 9)
    names = [f"k{i}" for i in range(n)]
    par, depth = {}, {"object": 0}
    for nm in names:
        cands = [p for p in ["object"] + list(par) if depth[p] < 4 and sum(1 for c in par if par[c] == p) < 4]
        p = rng.choice(cands)
        par[nm] = p
        depth[nm] = depth[p] + 1
    groups = {}
    for c, p in par.items():
        groups.setdefault(p, []).append(c)
    units = []
    for p, cs in groups.items():
        rng.shuffle(cs)
        if rng.random() < 0.4:                 # split into several lines
            k = rng.randint(1, len(cs))
            units += [(p, cs[:k])] + ([(p, cs[k:])] if cs[k:] else [])
        else:
            units.append((p, cs))
    rng.shuffle(units)
    omit = rng.random() < 0.3
    parents = set(par.values())
    if omit:
        units = [(p, [c for c in cs if not (p == "object" and c in parents)]) for p, cs in units]
        units = [u for u in units if u[1]]
    # an untyped trailing group is only legal at the very end
    trail = rng.random() < 0.4 and any(p == "object" for p, _ in units)
    if trail:
        objs = [u for u in units if u[0] == "object"]
        units = [u for u in units if u[0] != "object"] + objs[:-1]
        last = objs[-1]
    toks = []
    for p, cs in units:
        toks += [S(c) for c in cs] + [S("-"), S(p)]
    if trail:
        toks += [S(c) for c in last[1]]
    return {"id": cid, "tokens": toks, "forest": par, "layout": rng.randrange(1 << 30) if rng.random() < 0.5 else None}


def run(ctx):
    quick = ctx.quick
    rng = random.Random(ctx.seed)
    four = '{"ta", "tb", "tc", "td"}'
    five = '{"ta", "tb", "tc", "td", "te"}'
    ctx.mc("MC_Types", {"Names": four if quick else five}, ["TwoPhaseRefines"], timeout=3600)
    ctx.mc("MC_Types", {"Names": four}, ["BadOnePass"], expect_violation=True)
    gen_file = ctx.work / "gen_types.ndjson"
    ctx.gen("Gen_Types", {"Names": four, "Stride": 57 if quick else 5}, gen_file)
    cases = [json.loads(x) for x in open(gen_file)]
    if not quick:
        g5 = ctx.work / "gen_types5.ndjson"
        ctx.gen("Gen_Types", {"Names": five, "Stride": 211}, g5, timeout=3600)
        extra = [json.loads(x) for x in open(g5)]
        for c in extra:
            c["id"] += 1000000
        cases += extra
    # several domains over the same type names alive in one process (MC_Registry): design model with the two
    # sharing mistakes refuted, and its behaviours replayed (parse, parse, query the earlier one, ...)
    import registry_machine
    registry_machine.model_check(ctx, 4 if quick else 5)
    seqs = registry_machine.behaviours(ctx, 4)
    rng.shuffle(seqs)
    registry_machine.replay(ctx, seqs[:600] if quick else seqs, 9000000, (0, 1, 2) if quick else tuple(range(16)))
    ctx.extra["registry_behaviours_replayed"] = 600 if quick else len(seqs)
    n_gen = len(cases)
    for i in range(120 if quick else 2500):
        cases.append(random_rendering(rng, 5000000 + i))
    tf = ctx.drive("types", cases, hashseeds=(0, 1, 2) if quick else tuple(range(16)))
    ctx.validate(tf, {c["id"]: c for c in cases}, driver="types")
    for line in open(tf):
        h = json.loads(line)
        ctx.nontrivial.add(h.get("text", ""))
        if len(ctx.samples) < 2:
            ctx.sample({"types_section": h.get("text", ""), "events": [e["c"] for e in h["ev"]][:8]})
    ctx.rule = ("M: MC_Registry - several domains over the same type names in one process, each dictionary of type objects "
                "its own (shared module-level dictionary and answers cached by type name are refuted), behaviours of 4 calls "
                "replayed with every earlier domain re-queried; "
                "M: every forest on 4 (quick) / 5 (thorough) names x every order of its declaration groups x grouped/split x "
                "object-children typed/trailing x root parents declared or only on right-hand sides; G: a stride of those "
                f"renderings ({n_gen}) plus random forests on 5-9 names (depth<=4, width<=4) wrapped into a domain: subtype "
                "matrix over all pairs, hierarchy graph, acceptance of a problem fact for every (object type, required type) "
                "pair, objects reached by a forall effect over every type - each judged by TLC. distinct_nontrivial = "
                "distinct :types sections driven")
    ctx.assumptions += ["the :types section is read by the specification itself (Grammar!TypedList + ParentOf) from the same tokens"]
