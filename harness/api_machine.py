"""The heap-level machine of the object model (spec/MC_Api.tla): model checking with its negative
controls, and extraction of its behaviours (exhaustively up to a length, by simulation beyond it)
as call sequences for harness/drive_api.py."""
import json
import re

import tlc
from tlc import MachineryError

LINE_RE = re.compile(r'<<\s*"(HEADER|HIST)",\s*"((?:[^"\\]|\\.)*)"\s*>>', re.S)


def _cfg(mode, maxlen, invariants):
    return ("SPECIFICATION Spec\n" f'CONSTANT Mode = "{mode}"\n' f"CONSTANT MaxLen = {maxlen}\n"
            + "".join(f"INVARIANT {i}\n" for i in invariants) + "CHECK_DEADLOCK FALSE\n")


def model_check(ctx, maxlen):
    ctx.mc("MC_Api", {"Mode": '"correct"', "MaxLen": maxlen}, ["Faithful", "EqSound", "NoSharing"], label=f"MC_Api:correct:{maxlen}")
    for mode in ("sharedEmpty", "aliasOp"):
        ctx.mc("MC_Api", {"Mode": f'"{mode}"', "MaxLen": 3}, ["Faithful"], expect_violation=True, label=f"MC_Api:{mode}:Faithful")


def behaviours(ctx, maxlen, simulate=0, seed=0):
    """-> (domain tree, [call sequence...]): every behaviour of `maxlen` calls, or `simulate` random ones"""
    extra = ["-simulate", f"num={simulate}", "-depth", str(maxlen + 1), "-seed", str(seed)] if simulate else []
    r = tlc.run_tlc(tlc.SPEC_DIR / "MC_Api.tla", _cfg("correct", maxlen, ["Emit"]),
                    ctx.work / f"api_gen_{maxlen}_{simulate}", workers=1, timeout=1800, extra=extra)
    out = r["out"]
    if "is violated" in out or "Error:" in out and "Error: TLC" in out:
        raise MachineryError("MC_Api generator failed:\n" + out[-2000:])
    dom, seqs = None, []
    for m in LINE_RE.finditer(out):
        val = json.loads(json.loads('"' + m.group(2) + '"'))
        if m.group(1) == "HEADER":
            dom = val["dom"]
        else:
            seqs.append(val)
    if dom is None or not seqs:
        raise MachineryError("MC_Api generator produced nothing:\n" + out[-2000:])
    ctx.log(f"MC_Api emitted {len(seqs)} behaviours of {maxlen} calls" + (" (simulation)" if simulate else "") + f" ({r['wall']:.1f}s)")
    return dom, seqs


def cases_from(dom, seqs, base):
    return [{"id": base + i, "dom": dom, "calls": s} for i, s in enumerate(seqs)]


def replay(ctx, cases, hashseeds):
    """drive the behaviours through the library and have TraceApi judge them; a disagreement between the
    machine's own expectation (refused / returned, == answer) and a result TraceApi admitted means the two
    layers of the specification disagree: machinery failure"""
    tf = ctx.drive("api", cases, hashseeds=hashseeds)
    v = ctx.validate(tf, {c["id"]: c for c in cases}, driver="api")
    for line in open(tf):
        h = json.loads(line)
        if h.get("machine_mismatch") and not v[h["id"]][0]:
            raise MachineryError(f"MC_Api and TraceApi disagree on behaviour {h['id']}: calls {h['machine_mismatch']}")
    return tf
