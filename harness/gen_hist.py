"""Inputs for history-level checks (C04, C07, C10, C14): a multi-action domain over the typed
vocabulary of gen_core, a problem, and a seed from which the driver derives a program of API
calls.  Actions deliberately use parameters of different (narrower / broader) types over the same
predicates, so that facts added by one action are deleted or tested by another."""
import random

import gen_core
from gen_core import S, L, N, Gen, typed

PARAM_SETS = [
    [["?x", "t1"], ["?y", "object"]],
    [["?x", "t2"], ["?y", "t1"]],
    [["?x", "t1"]],
    [["?x", "t2"], ["?v", "t3"]],
    [["?x", "object"], ["?y", "t2"]],
    [],
]


def gen_domain(rng, n_actions=4, with_forall=True, with_numeric=True, noise=False, with_shadow=False, with_eqonly=False):
    acts = []
    if noise:
        # fluent values that are not short decimals (float noise, thirds): no comparison reads them, so the
        # exact arithmetic of the specification and the library's doubles never disagree on a truth value
        with_numeric = False
        acts.append(("tick", [], L(), L(S("and"), L(S("increase"), L(S("g")), {"t": "n", "v": [1, 10], "txt": "0.1"}))))
        acts.append(("third", [["?x", "t1"]], L(), L(S("and"), L(S("assign"), L(S("f"), S("?x")), L(S("/"), L(S("g")), N(3))))))
        acts.append(("tiny", [["?x", "t1"]], L(), L(S("and"), L(S("assign"), L(S("f"), S("?x")),
                                                              L(S("*"), L(S("g")), {"t": "n", "v": [1, 100000], "txt": "0.00001"})))))
    for i in range(n_actions):
        params = rng.choice(PARAM_SETS)
        g = Gen(rng, params, with_forall=with_forall, with_numeric=with_numeric, with_shadow=with_shadow, with_eqonly=with_eqonly)
        # keep preconditions light so that walks stay alive
        pre = g.pre() if rng.random() < 0.6 else L(S("and"), g.lit())
        acts.append((f"a{i}", params, pre, g.eff()))
    if rng.random() < 0.6:
        # the same fact added by an action over a narrow type and deleted / tested by one over a broad type
        narrow, broad = rng.choice([("t2", "t1"), ("t2", "object"), ("t1", "object")])
        if rng.random() < 0.5:
            acts.append(("addn", [["?x", narrow]], L(), L(S("and"), L(S("p"), S("?x")))))
            acts.append(("delb", [["?x", broad if broad != "object" else "t1"]], L(S("and"), L(S("p"), S("?x"))),
                         L(S("and"), L(S("not"), L(S("p"), S("?x"))))))
        else:
            acts.append(("addn", [["?x", "t2"], ["?y", narrow]], L(), L(S("and"), L(S("q"), S("?x"), S("?y")))))
            acts.append(("delb", [["?x", "t1"], ["?y", "object"]], L(S("and"), L(S("q"), S("?x"), S("?y"))),
                         L(S("and"), L(S("not"), L(S("q"), S("?x"), S("?y"))))))
    if with_numeric and rng.random() < 0.4:
        # a fluent changed by the action and read by a numeric effect under a forall of the same action
        # (every right-hand side is read in the state before the action)
        acts.append(("bump", [["?x", "t1"]], L(),
                     L(S("and"), L(S("increase"), L(S("g")), N(1)),
                       L(S("forall"), L(S("?z"), S("-"), S("t1")),
                         L(S("when"), L(S("p"), S("?z")), L(S("assign"), L(S("f"), S("?z")), L(S("+"), L(S("g")), L(S("f"), S("?x")))))))))
    types = None
    if rng.random() < 0.4:      # type declarations in another order (children before their parents)
        types = list(gen_core.TYPES)
        rng.shuffle(types)
    return gen_core.domain_tree(acts, types=types), acts


def gen_problem_tree(rng, objs, name="hp", sparse=False):
    st = gen_core.random_state(rng, objs, density=rng.choice([0.3, 0.5]))
    if sparse:      # some fluents are not given a value at all (what reads them is open, repeating a call is not)
        st["fl"] = [f for f in st["fl"] if rng.random() < 0.6]
    items = [L(S(p), *[S(x) for x in a]) for p, a in st["facts"]] + \
            [L(S("="), L(S(f), *[S(x) for x in a]), {"t": "n", "v": v}) for f, a, v in st["fl"]]
    return L(S("define"), L(S("problem"), S(name)), L(S(":domain"), S("dom")), L(S(":objects"), *typed(objs)),
             L(S(":init"), *items), L(S(":goal"), L(S("and"))))


HYPHEN_NAMES = {"p": "q-o1", "f": "h-o1"}


def resymbol(tree, names):
    if tree["t"] == "s":
        return S(names.get(tree["v"], tree["v"]))
    if tree["t"] == "l":
        return L(*[resymbol(c, names) for c in tree["c"]])
    return tree


def gen_case(seed, cid, n_ops=14, **kw):
    rng = random.Random(seed * 7919 + cid)
    sparse_init = kw.pop("sparse_init", False)
    hyphen = kw.pop("hyphen", False)
    dom, acts = gen_domain(rng, n_actions=rng.choice([3, 4, 5]) if not kw.get("noise") else 2, **kw)
    objs = list(gen_core.OBJS) if rng.random() < 0.7 else gen_core.OBJS[:3]
    # a second problem of the same domain over another object set (one exporter serves both)
    objs2 = [o for o in objs if o[0] != "o2"] + [["o5", "t2"], ["o6", "t1"]]
    prob = gen_problem_tree(rng, objs, sparse=bool(sparse_init) and rng.random() < 0.4)
    prob2 = gen_problem_tree(rng, objs2, name="hp2")
    if hyphen:
        # hyphens are ordinary characters of a name: (q-o1 o2) and (q o1 o2), (h-o1 o2) and (h o1 o2) are different
        # atoms / fluents whose tokens agree once they are glued together with "-"
        dom, prob, prob2 = (resymbol(t, HYPHEN_NAMES) for t in (dom, prob, prob2))
    return {"id": cid, "dom": dom, "prob": prob, "objs": objs, "prob2": prob2, "objs2": objs2,
            "acts": [[n, p] for n, p, _, _ in acts], "seed": rng.randrange(1 << 30), "n_ops": n_ops,
            "layout": rng.randrange(1 << 30) if rng.random() < 0.3 else None}
