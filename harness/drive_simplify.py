"""C13 driver: simplified printing of an action's numeric conditions."""
import layout
import pylib
import sexp_reader
from drive_core import domain_digest
from pddl_plus_parser.lisp_parsers import PDDLTokenizer
from pddl_plus_parser.models import NumericalExpressionTree, construct_expression_tree


def run_case(case, opts):
    ev = []
    text = layout.pretty(case["tree"])
    hist = {"id": case["id"], "ev": ev, "text": text[text.find(":precondition"):text.find(":effect")], "shape": case["shape"]}
    try:
        dom = pylib.parse_domain_text(text)
        ev.append({"c": "ParseDomain", "h": "d", "tree": case["tree"], "out": {"vocab": pylib.vocab(dom), "digest": domain_digest(dom)}})
    except Exception as e:  # noqa: BLE001
        ev.append({"c": "ParseDomain", "h": "d", "tree": case["tree"], "out": {"exc": pylib.exc_name(e)}})
        return hist
    act = dom.actions["act"]
    # the same conditions printed twice by one process, first with the case's (coarser) setting and then with six
    # decimals: a result remembered from the first call shows in the second
    plan = [(case["digits"], case["exact"])]
    if case["digits"] < 5 and case["id"] % 2:
        plan.append((6, case["exact"] or (6 >= case.get("need", 99) and case["shape"] != "set+eq")))
    for d, exact in plan:
        ev.append(simplify_event(dom, act, case["how"], d, exact))
    return hist


def simplify_event(dom, act, how, d, exact):
    out = {}
    try:
        if how == "print":
            printed = act.preconditions.print(should_simplify=True, decimal_digits=d)
            tree = sexp_reader.read(printed)
            conds = tree["c"][1:]
            texts = [layout.flat(c) for c in conds]
        else:
            texts = [c.simplify_complex_numerical_pddl_expression(decimal_digits=d) for _, c in act.preconditions
                     if isinstance(c, NumericalExpressionTree)]
            conds = [sexp_reader.read(t) for t in texts]
        ok = True
        for t in texts:
            try:
                construct_expression_tree(PDDLTokenizer(pddl_str=t).parse(), dom.functions)
            except Exception:  # noqa: BLE001
                ok = False
        out = {"trees": conds, "reparse_ok": ok, "texts": texts}
    except Exception as e:  # noqa: BLE001
        out = {"exc": pylib.exc_name(e)}
    return {"c": "Simplify", "d": "d", "act": "act", "digits": d, "how": how, "exact": exact, "out": out}
