"""Inputs for C12: tolerance boundary probes, deep expression trees, constants to print."""
import random
from fractions import Fraction

import gen_core
from gen_core import S, L, N, typed

OPS = {"lt": "<", "le": "<=", "eq": "=", "ge": ">=", "gt": ">"}


def probe_domain():
    acts = [L(S(":action"), S(f"c_{n}"), S(":parameters"), L(*typed([["?x", "t1"]])),
              S(":precondition"), L(S("and"), L(S(op), L(S("f"), S("?x")), L(S("g")))),
              S(":effect"), L(S("and"), L(S("p"), S("?x")))) for n, op in OPS.items()]
    acts += [L(S(":action"), S(f"r_{n}"), S(":parameters"), L(*typed([["?x", "t1"]])),
               S(":precondition"), L(S("and"), L(S(op), L(S("g")), L(S("f"), S("?x")))),
               S(":effect"), L(S("and"), L(S("p"), S("?x")))) for n, op in OPS.items()]
    return L(S("define"), L(S("domain"), S("np")), L(S(":requirements"), S(":typing")),
             L(S(":types"), *typed([["t1", "object"]])),
             L(S(":predicates"), L(S("p"), *typed([["?a", "t1"]]))),
             L(S(":functions"), L(S("f"), *typed([["?a", "t1"]])), L(S("g"))), *acts)


def probe_case(cid, eps, magnitudes, half=None):
    """states with f(o1) = m and g = m + k half-tolerances, k in -4..4, for each magnitude
    (half: the step to use instead, for a tolerance of zero)"""
    half = Fraction(half) if half is not None else Fraction(eps) / 2
    states = []
    for m in magnitudes:
        for k in (-4, -2, -1, 0, 1, 2, 4):
            x = Fraction(m)
            y = Fraction(m) + k * half
            states.append({"facts": [], "fl": [["f", ["o1"], [x.numerator, x.denominator]], ["g", [], [y.numerator, y.denominator]]]})
    calls = []
    for si in range(len(states)):
        for n in OPS:
            calls.append({"act": f"c_{n}", "args": ["o1"], "s": si, "mode": "app"})
            calls.append({"act": f"r_{n}", "args": ["o1"], "s": si, "mode": "app"})
    return {"id": cid, "tree": probe_domain(), "objs": [["o1", "t1"]], "states": states, "calls": calls, "ground": False}


CONSTS = [(1, 2), (9, 4), (81, 8), (74999, 25000), (-199997, 100000), (174, 25), (49, 50), (75001, 25000), (2469, 20000),
          (7, 1), (-3, 1), (1, 100000), (33333, 100000), (99999, 100000), (5, 1), (123, 10)]


def print_case(rng, cid):
    """an action whose numeric conditions / effects contain constants with up to 5 decimals"""
    def const():
        n, d = rng.choice(CONSTS)
        return N(n, d)

    def expr(depth):
        if depth == 0 or rng.random() < 0.3:
            return rng.choice([L(S("f"), S("?x")), L(S("g")), const(), const()])
        a, b = expr(depth - 1), expr(depth - 1)
        if a["t"] == "n" and b["t"] == "n":
            a = L(S("g"))
        return L(S(rng.choice(["+", "-", "*", "/"])), a, b)

    def side():
        e = expr(rng.choice([1, 2, 3]))
        return e if gen_core.has_fluent(e) else L(S("+"), L(S("g")), e)
    pre = L(S("and"), *[L(S(rng.choice(["<", "<=", "=", ">=", ">"])), side(), const()) for _ in range(rng.choice([1, 2]))])
    targets = rng.sample([L(S("f"), S("?x")), L(S("g"))], rng.choice([1, 2]))
    eff = L(S("and"), *[L(S(rng.choice(["assign", "increase", "decrease"])), t, expr(rng.choice([0, 1, 2, 3]))) for t in targets])
    tree = L(S("define"), L(S("domain"), S("npr")), L(S(":requirements"), S(":typing")),
             L(S(":types"), *typed([["t1", "object"]])),
             L(S(":predicates"), L(S("p"), *typed([["?a", "t1"]]))),
             L(S(":functions"), L(S("f"), *typed([["?a", "t1"]])), L(S("g"))),
             L(S(":action"), S("act"), S(":parameters"), L(*typed([["?x", "t1"]])), S(":precondition"), pre, S(":effect"), eff))
    return {"id": cid, "tree": tree, "objs": [["o1", "t1"]], "states": [], "calls": [], "ground": False,
            "prints": [0, 1, 2, 3, 4, 5, 6, "default"]}


def deep_case(seed, cid):
    """random actions with expression trees up to depth 4 (evaluation, assign/increase/decrease)"""
    rng = random.Random(seed * 65537 + cid)
    params = [["?x", "t1"], ["?y", "object"]]
    g = gen_core.Gen(rng, params, with_forall=False)
    pre = L(S("and"), L(S(rng.choice(["<", "<=", ">=", ">"])), g.side(4, ()), g.side(rng.choice([0, 2]), ())))
    eff = L(S("and"), L(S(rng.choice(["assign", "increase", "decrease"])), L(S("g")), g.expr(4, ())),
            L(S(rng.choice(["assign", "increase", "decrease"])), L(S("f"), S("?x")), g.expr(3, ())))
    tree = gen_core.domain_tree([("act", params, pre, eff)])
    objs = list(gen_core.OBJS)
    states = [gen_core.random_state(rng, objs) for _ in range(4)]
    calls = []
    terms = gen_core.fluent_terms(tree["c"][-1], [])
    for args in gen_core.calls_for(rng, params, objs, 6):
        if gen_core.repeats_fluent_arg(terms, params, args, objs):
            continue
        for si in range(4):
            calls.append({"act": "act", "args": args, "s": si, "mode": "app"})
            calls.append({"act": "act", "args": args, "s": si, "mode": "apply", "allow": True, "skip": False})
    return {"id": cid, "tree": tree, "objs": objs, "states": states, "calls": calls, "ground": False, "prints": [4, "default"]}


def big_probe_case(cid, eps):
    """value pairs k half-tolerances apart at magnitudes 10^6 .. 10^9 (mixed numbers)"""
    half = Fraction(eps) / 2
    d = half.denominator
    probes = []
    for m in (10 ** 6, 10 ** 7, 10 ** 8, 123456789):
        for k in (-4, -3, -1, 0, 1, 3, 4):
            t = k * half.numerator
            x = [m, 0, d]
            y = [m, t, d] if t >= 0 else [m - 1, d + t, d]
            for n, op in OPS.items():
                probes.append({"name": n, "op": op, "x": x, "y": y})
    return {"id": cid, "tree": probe_domain(), "objs": [["o1", "t1"]], "states": [], "calls": [], "ground": False,
            "big_probes": probes}
