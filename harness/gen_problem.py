"""Random problems (and single-point corruptions) over the typed vocabulary of gen_core.
Inputs only: whether a problem is well formed is decided by the specification (Syntax!WFProblem)."""
import random
from fractions import Fraction

import gen_core
from gen_core import S, L, N, typed, subtype, PREDS, FUNCS, CONSTS

EXTRA_OBJS = [["o5", "object"], ["o6", "t1"], ["o7", "t3"]]

NUM_FORMS = [("3", 3, 1), ("3.0", 3, 1), ("0", 0, 1), ("-2.5", -5, 2), ("0.25", 1, 4), ("10", 10, 1), ("1e1", 10, 1),
             ("2.5e-1", 1, 4), ("5E0", 5, 1), ("-0.125", -1, 8), ("7.50", 15, 2), ("100", 100, 1), ("-1", -1, 1),
             ("0.0625", 1, 16), ("12.75", 51, 4),
             # more than six significant digits
             ("1234567", 1234567, 1), ("12.345678", 6172839, 500000), ("2500000.75", 10000003, 4), ("98765.4321", 987654321, 10000),
             ("-100000.5", -200001, 2),
             # below 1e-4 (printed with an exponent by repr)
             ("0.0000125", 1, 80000), ("0.0000134", 67, 5000000)]


N_SHORT = 15     # the first forms have at most 4 decimals: goal constants are printed with NUMERIC_PRECISION decimals


def num(rng, short=False):
    txt, n, d = rng.choice(NUM_FORMS[:N_SHORT] if short else NUM_FORMS)
    return {"t": "n", "v": [n, d], "txt": txt}


def objects_tokens(rng, objs):
    """typed each / grouped by type / with the object-typed ones trailing untyped"""
    style = rng.choice(["each", "group", "trail"])
    if style == "each":
        return typed(objs)
    by = {}
    for n, t in objs:
        by.setdefault(t, []).append(n)
    order = list(by)
    rng.shuffle(order)
    if style == "trail" and "object" in by:
        order = [t for t in order if t != "object"] + ["object"]
    toks = []
    for t in order:
        toks += [S(n) for n in by[t]]
        if not (style == "trail" and t == "object"):
            toks += [S("-"), S(t)]
    return toks


# the same type names arranged in other trees: a problem generated for the standard tree is then well typed
# or not depending on the whole tree of the domain it is parsed over (the specification decides)
ALT_TYPES = [
    [("t1", "object"), ("t2", "object"), ("t3", "t1")],
    [("t2", "object"), ("t1", "t2"), ("t3", "object")],
    [("t1", "object"), ("t2", "t1"), ("t3", "t2")],
    [("t3", "object"), ("t1", "t3"), ("t2", "object")],
]


def domain_tree(types=None):
    return gen_core.domain_tree([("noop", [], L(), L(S("and"), L(S("r"))))], types=types)


def gen_problem(rng, cid, repeats=False, alt_types=False):
    objs = list(gen_core.OBJS) + [o for o in EXTRA_OBJS if rng.random() < 0.6]
    rng.shuffle(objs)
    atoms = gen_core.ground_atoms(objs)
    fls = gen_core.ground_fluents(objs)
    facts = [a for a in atoms if rng.random() < 0.25]
    fluents = [[f, a] for f, a in fls if rng.random() < 0.4]
    if repeats:   # fluents whose argument list repeats an object (C09 names them explicitly)
        fluents += [["h", [o, o]] for o, _ in objs if rng.random() < 0.3]
    glits = [a for a in atoms if rng.random() < 0.08]
    gcmps = []
    for _ in range(rng.choice([0, 0, 1, 2])):
        f, a = rng.choice(fls)
        left = L(S(f), *[S(x) for x in a])
        if rng.random() < 0.4:
            f2, a2 = rng.choice(fls)
            left = L(S(rng.choice(["+", "-", "*"])), left, L(S(f2), *[S(x) for x in a2]))
        gcmps.append(L(S(rng.choice(["<", "<=", "=", ">=", ">"])), left, num(rng, short=True)))
    case = {"facts": facts, "fluents": [[f, a, num(rng)] for f, a in fluents], "glits": glits, "gcmps": gcmps,
            "objs": objs, "domain": "dom", "name": f"prob{cid}"}
    kind = "valid"
    r = rng.random()
    if r < 0.55:
        kind = corrupt(rng, case)
    items = [L(S(p), *[S(x) for x in a]) for p, a in case["facts"]] + \
            [L(S("="), L(S(f), *[S(x) for x in a]), v) for f, a, v in case["fluents"]]
    rng.shuffle(items)
    goal_items = [L(S(p), *[S(x) for x in a]) for p, a in case["glits"]] + case["gcmps"]
    tree = L(S("define"), L(S("problem"), S(case["name"])), L(S(":domain"), S(case["domain"])),
             L(S(":objects"), *objects_tokens(rng, case["objs"])), L(S(":init"), *items), L(S(":goal"), L(S("and"), *goal_items)))
    types = rng.choice(ALT_TYPES) if alt_types and rng.random() < 0.5 else None
    if types is not None:
        kind += "+alt-types"
    return {"id": cid, "kind": kind, "dom": domain_tree(types), "tree": tree,
            "layout": rng.randrange(1 << 30) if rng.random() < 0.5 else None}


LONG_OBJS = ["truck-central", "truck-eastern", "truck-western-depot", "trailer-one", "long-distance-hauler"]


def long_names_case(rng, cid):
    """a problem whose names are hyphenated words and whose numeric goals are sums too long for one short line
    (realistic benchmark style: fuel-level, total-cost, truck-central)"""
    dom = L(S("define"), L(S("domain"), S("haulage-fleet")), L(S(":requirements"), S(":typing")),
            L(S(":types"), *typed([["road-vehicle", "object"]])),
            L(S(":predicates"), L(S("parked-at-base"), *typed([["?v", "road-vehicle"]]))),
            L(S(":functions"), L(S("fuel-level"), *typed([["?v", "road-vehicle"]])), L(S("total-cost")),
              L(S("distance-between"), *typed([["?a", "road-vehicle"], ["?b", "road-vehicle"]]))),
            L(S(":action"), S("refuel-vehicle"), S(":parameters"), L(*typed([["?v", "road-vehicle"]])),
              S(":precondition"), L(S("and"), L(S("parked-at-base"), S("?v"))),
              S(":effect"), L(S("and"), L(S("increase"), L(S("fuel-level"), S("?v")), N(1)))))
    objs = rng.sample(LONG_OBJS, rng.choice([3, 4, 5]))
    items = [L(S("parked-at-base"), S(o)) for o in objs if rng.random() < 0.6]
    items += [L(S("="), L(S("fuel-level"), S(o)), num(rng, short=True)) for o in objs]
    items += [L(S("="), L(S("total-cost")), num(rng, short=True))]
    pairs = [(a, b) for a in objs for b in objs if a != b]
    items += [L(S("="), L(S("distance-between"), S(a), S(b)), num(rng, short=True)) for a, b in rng.sample(pairs, 3)]
    goals = [L(S("parked-at-base"), S(rng.choice(objs)))]
    for _ in range(rng.choice([1, 2])):
        terms = [L(S("fuel-level"), S(o)) for o in rng.sample(objs, 3)]
        if rng.random() < 0.5:
            a, b = rng.choice(pairs)
            terms.append(L(S("distance-between"), S(a), S(b)))
        rng.shuffle(terms)
        e = terms[0]
        for t in terms[1:]:
            e = L(S(rng.choice(["+", "+", "-"])), e, t)
        goals.append(L(S(rng.choice(["<=", ">=", "<"])), e, num(rng, short=True)))
    prob = L(S("define"), L(S("problem"), S(f"haulage-{cid}")), L(S(":domain"), S("haulage-fleet")),
             L(S(":objects"), *typed([[o, "road-vehicle"] for o in objs])), L(S(":init"), *items),
             L(S(":goal"), L(S("and"), *goals)))
    return {"id": cid, "dom": dom, "prob": prob, "seed": cid, "walk": 0}


def corrupt(rng, case):
    """one single-point corruption (may leave the problem well formed: the spec decides)"""
    names = [n for n, _ in case["objs"]] + [c for c, _ in CONSTS] + ["nosuch"]
    target = rng.choice(["facts", "fluents", "glits", "gcmps", "domain", "objtype"])
    if target == "domain":
        case["domain"] = "otherdom"
        return "domain"
    if target == "objtype" and case["objs"]:
        i = rng.randrange(len(case["objs"]))
        case["objs"][i] = [case["objs"][i][0], "nosuchtype"]
        return "object-type"
    if target == "gcmps" and case["gcmps"]:
        t = rng.choice(case["gcmps"])
        fl = t["c"][1] if t["c"][1]["c"][0]["v"] in FUNCS else t["c"][1]["c"][1]
        mutate_term(rng, fl["c"], names)
        return "goal-fluent"
    if target in ("facts", "fluents", "glits") and case[target]:
        item = rng.choice(case[target])
        how = rng.random()
        if how < 0.5 and item[1]:
            item[1][rng.randrange(len(item[1]))] = rng.choice(names)
        elif how < 0.65:
            item[1].append(rng.choice(names))
        elif how < 0.8 and item[1]:
            item[1].pop()
        else:
            item[0] = "undeclared"
        return target
    return "valid"


def mutate_term(rng, c, names):
    how = rng.random()
    if how < 0.5 and len(c) > 1:
        c[rng.randrange(1, len(c))] = S(rng.choice(names))
    elif how < 0.7:
        c.append(S(rng.choice(names)))
    elif len(c) > 1:
        c.pop()
