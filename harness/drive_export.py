"""C08 / C09 driver: export a parsed domain / problem to PDDL text, read the text with the
independent reader (for the specification) and with the library (second generation), twice."""
import random

import gen_core
import layout
import pylib
import sexp_reader
from drive_core import domain_digest
from drive_hist import type_correct_args
from pddl_plus_parser.exporters import DomainExporter, ProblemExporter

# one exporter object per process serves every export (a result kept on the object shows in the next export)
DOMAIN_EXPORTER = DomainExporter()
PROBLEM_EXPORTER = ProblemExporter()
_turn = [0]


def domain_text(dom):
    """the exported text, alternately through extract_domain and through export_domain + the file it wrote"""
    _turn[0] += 1
    if _turn[0] % 2:
        return DOMAIN_EXPORTER.extract_domain(dom)
    path = pylib.scratch_dir() / "exported_domain.pddl"
    DOMAIN_EXPORTER.export_domain(dom, path)
    return open(path, encoding="utf-8").read()


def problem_text(prob):
    _turn[0] += 1
    if _turn[0] % 2:
        return PROBLEM_EXPORTER.extract_problem(prob)
    path = pylib.scratch_dir() / "exported_problem.pddl"
    PROBLEM_EXPORTER.export_problem(prob, path)
    return open(path, encoding="utf-8").read()


def export_domain_event(dom, dh, new_h, state_handles, calls=None):
    ev, d2, t2 = _export_domain_event(dom, dh, new_h, state_handles)
    if calls is not None:
        ev["calls"] = calls
    return ev, d2, t2


def _export_domain_event(dom, dh, new_h, state_handles):
    try:
        text = domain_text(dom)
        tree = sexp_reader.read(text)
    except Exception as e:  # noqa: BLE001
        return {"c": "ExportDomain", "d": dh, "h": new_h, "u": "p", "states": state_handles, "out": {"exc": pylib.exc_name(e)}}, None, None
    out = {"tree": tree}
    dom2 = None
    try:
        dom2 = pylib.parse_domain_text(text)
        out["vocab2"] = pylib.vocab(dom2)
        out["digest2"] = domain_digest(dom2)
    except Exception as e:  # noqa: BLE001
        out["exc2"] = pylib.exc_name(e)
        out["digest2"] = "none"
    return {"c": "ExportDomain", "d": dh, "h": new_h, "u": "p", "states": state_handles, "out": out}, dom2, text


def run_case(case, opts):
    rng = random.Random(case["seed"])
    ev = []
    hist = {"id": case["id"], "ev": ev}
    if case.get("path"):
        dtree = sexp_reader.read_file(case["path"])
        dtext = open(case["path"]).read()
        hist["text"] = case["path"]
    else:
        dtree = case["dom"]
        dtext = layout.pretty(dtree)
        hist["text"] = dtext[dtext.find("(:action"):][:2500]
    try:
        dom = pylib.parse_domain_text(dtext)
        ev.append({"c": "ParseDomain", "h": "d", "tree": dtree, "out": {"vocab": pylib.vocab(dom), "digest": domain_digest(dom)}})
    except Exception as e:  # noqa: BLE001
        ev.append({"c": "ParseDomain", "h": "d", "tree": dtree, "out": {"exc": pylib.exc_name(e)}})
        return hist
    ptree = sexp_reader.read_file(case["prob_path"]) if case.get("prob_path") else case["prob"]
    ptext = open(case["prob_path"]).read() if case.get("prob_path") else layout.pretty(ptree)
    out, prob = pylib.observe_problem(ptext, dom)
    ev.append({"c": "ParseProblem", "h": "p", "d": "d", "tree": ptree, "out": out})
    if prob is None:
        return hist
    s0 = pylib.State(prob.initial_state_predicates, prob.initial_state_fluents, is_init=True)
    ev.append({"c": "InitialState", "h": "s0", "p": "p", "out": {"st": pylib.project_state(s0)}})
    states = {"s0": s0}
    # a few more states: successors along a walk of library-applicable calls (input selection only)
    acts = [[n, [[v, t.name] for v, t in a.signature.items()]] for n, a in dom.actions.items()]
    objs = sorted([o.name, o.type.name] for o in prob.objects.values())
    cur = "s0"
    for i in range(case.get("walk", 3)):
        for _ in range(10):
            name, params = rng.choice(acts)
            try:
                args = [rng.choice([n for n, t in objs if dom.types[t].is_sub_type(dom.types[ty])]) for _, ty in params]
            except (IndexError, KeyError):
                continue
            if case.get("path") is None and gen_core.repeats_fluent_arg(
                    gen_core.fluent_terms(action_tree(dtree, name), []), params, args, objs):
                continue
            try:
                op = pylib.new_operator(dom, name, args, prob.objects)
                if not op.is_applicable(states[cur]):
                    continue
            except Exception:  # noqa: BLE001
                continue
            out, new = pylib.observe_apply(dom, name, args, prob.objects, states[cur])
            h = f"n{i + 1}"
            ev.append({"c": "Apply", "d": "d", "u": "p", "act": name, "args": args, "s": cur, "h": h, "allow": False,
                       "skip": False, "out": out})
            if new is not None:
                states[h] = new
                cur = h
            break
    handles = list(states)
    calls = None
    if case.get("path"):
        # a fixture universe is too large to enumerate every call: a sample (input selection)
        calls = []
        for name, params in acts:
            for _ in range(6):
                try:
                    calls.append([name, [rng.choice([n for n, t in objs if dom.types[t].is_sub_type(dom.types[ty])]) for _, ty in params]])
                except (IndexError, KeyError):
                    break
        calls = calls or [["#none", []]]
    e1, dom2, text2 = export_domain_event(dom, "d", "d2", handles, calls)
    ev.append(e1)
    if dom2 is not None:
        hist["exported"] = text2[:3000]
        e2, dom3, _ = export_domain_event(dom2, "d2", "d3", handles, calls)
        ev.append(e2)
    # the problem: export, read, re-parse with the library
    try:
        ptext2 = problem_text(prob)
        ptree2 = sexp_reader.read(ptext2)
        eo = {"tree": ptree2}
        ev.append({"c": "ExportProblem", "p": "p", "out": eo})
        out2, prob2 = pylib.observe_problem(ptext2, dom)
        ev.append({"c": "ParseProblem", "h": "p2", "d": "d", "tree": ptree2, "out": out2})
        if prob2 is not None:
            ptext3 = problem_text(prob2)
            ev.append({"c": "ExportProblem", "p": "p2", "out": {"tree": sexp_reader.read(ptext3)}})
    except Exception as e:  # noqa: BLE001
        ev.append({"c": "ExportProblem", "p": "p", "out": {"exc": pylib.exc_name(e)}})
    snap = {k: pylib.project_state(v) for k, v in states.items()}
    snap["d"] = domain_digest(dom)
    ev.append({"c": "Snap", "snap": snap})
    return hist


def action_tree(dom, name):
    for c in dom["c"]:
        if c["t"] == "l" and c["c"] and c["c"][0].get("v") == ":action" and c["c"][1]["v"] == name:
            return c
    return {"t": "l", "c": []}
