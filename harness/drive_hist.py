"""History driver: a seeded program of public API calls over one parsed domain and problem -
applicability, apply with each flag combination, re-use of one Operator object on several
states, copies, equality, plan execution, trajectory export and re-parsing - each recorded at its
return together with a snapshot of every live handle (states, runs, the domain digest)."""
import os
import random

import gen_core
import layout
import pylib
import sexp_reader
from drive_core import domain_digest
from pddl_plus_parser.exporters import TrajectoryExporter
from pddl_plus_parser.lisp_parsers import TrajectoryParser


KINDS = ["app", "apply", "newop", "applyop", "copy", "eq", "run", "export", "parse", "objs", "flconds", "typed", "edit", "groundrep", "oprepeat"]
WEIGHTS = {"chain": [3, 8, 1, 3, 0, 0, 2, 0, 0, 0, 0, 0, 2, 1, 0], "mixed": [2, 5, 1, 3, 1, 2, 2, 1, 1, 1, 1, 1, 2, 1, 2],
           "state": [1, 5, 1, 2, 3, 6, 1, 0, 1, 2, 2, 2, 3, 1, 1], "traj": [0, 2, 0, 0, 0, 1, 4, 3, 4, 0, 0, 0, 0, 1, 0],
           "plans": [0, 1, 0, 0, 0, 0, 6, 1, 1, 0, 0, 0, 0, 0, 0],
           # a few long-lived Operator objects asked about and applied to many states, earlier and later ones
           "opreuse": [1, 3, 3, 7, 0, 0, 1, 0, 0, 0, 0, 0, 0, 0, 4]}


def proj_steps(triplets):
    out = []
    for t in triplets:
        op = sexp_reader.read_plain(str(t.operator))
        out.append({"pre": pylib.project_state(t.previous_state), "op": [op[0], op[1:]],
                    "post": pylib.project_state(t.next_state)})
    return out


def type_correct_args(rng, params, objs):
    names = [[o, t] for o, t in objs] + [[c, t] for c, t in gen_core.CONSTS]
    return [rng.choice([n for n, t in names if gen_core.subtype(t, ty)]) for _, ty in params]


def run_case(case, opts):
    rng = random.Random(case["seed"])
    ev = []
    hist = {"id": case["id"], "ev": ev}
    seed = case.get("layout")
    dtext = layout.pretty(case["dom"]) if seed is None else layout.wild(case["dom"], seed)
    hist["text"] = dtext[dtext.find("(:action"):][:2500] if "(:action" in dtext else dtext[:2500]
    try:
        dom = pylib.parse_domain_text(dtext)
        ev.append({"c": "ParseDomain", "h": "d", "tree": case["dom"], "out": {"vocab": pylib.vocab(dom), "digest": domain_digest(dom)}})
    except Exception as e:  # noqa: BLE001
        ev.append({"c": "ParseDomain", "h": "d", "tree": case["dom"], "out": {"exc": pylib.exc_name(e)}})
        return hist
    out, prob = pylib.observe_problem(layout.pretty(case["prob"]), dom)
    ev.append({"c": "ParseProblem", "h": "p", "d": "d", "tree": case["prob"], "out": out})
    if prob is None:
        return hist
    s0 = pylib.State(prob.initial_state_predicates, prob.initial_state_fluents, is_init=True)
    ev.append({"c": "InitialState", "h": "s0", "p": "p", "out": {"st": pylib.project_state(s0)}})
    states = {"s0": s0}
    ops = {}
    runs = {}
    run_prob = {}
    last_op = [None]
    plans_done = []
    acts = case["acts"]
    objs = case["objs"]
    second = None       # (handle, problem, objects, initial state) of the second problem, used by plan runs only
    if case.get("prob2") and case.get("weights", "mixed") in ("mixed", "traj", "plans"):
        out2, prob2 = pylib.observe_problem(layout.pretty(case["prob2"]), dom)
        ev.append({"c": "ParseProblem", "h": "p2", "d": "d", "tree": case["prob2"], "out": out2})
        if prob2 is not None:
            second = ("p2", prob2, case["objs2"], pylib.State(prob2.initial_state_predicates, prob2.initial_state_fluents, is_init=True))
    fluent_terms = gen_core.fluent_terms(case["dom"], [])
    cnt = [0]

    def fresh(prefix):
        cnt[0] += 1
        return f"{prefix}{cnt[0]}"

    def pick_call(state, want_applicable, objs=objs, prob=prob):
        """a type-correct call; with want_applicable the library itself is asked (input selection only)"""
        last_ok = None
        for _ in range(12):
            name, params = rng.choice(acts)
            args = type_correct_args(rng, params, objs)
            # grounding a fluent onto a repeated object is a separate known finding (RepeatedFluentArg)
            terms = [t for t in gen_core.fluent_terms(action_tree(case["dom"], name), [])]
            if gen_core.repeats_fluent_arg(terms, params, args, objs):
                continue
            if not want_applicable:
                return name, args
            try:
                if pylib.new_operator(dom, name, args, prob.objects).is_applicable(state):
                    return name, args
            except Exception:  # noqa: BLE001
                return name, args
            last_ok = (name, args)
        return last_ok

    def snap():
        s = {k: pylib.project_state(v) for k, v in states.items()}
        for k, tr in runs.items():
            s[k] = proj_steps(tr)
        s["d"] = domain_digest(dom)
        ev.append({"c": "Snap", "snap": s})

    parsers = {}

    def traj_parser(problem):
        """one TrajectoryParser object per (domain, problem) of the history, used for every parse"""
        key = id(problem)
        if key not in parsers:
            parsers[key] = TrajectoryParser(dom, problem)
        return parsers[key]

    exporter = {False: TrajectoryExporter(dom, allow_invalid_actions=False), True: TrajectoryExporter(dom, allow_invalid_actions=True)}
    for _ in range(case["n_ops"]):
        kind = rng.choices(KINDS, weights=WEIGHTS[case.get("weights", "mixed")])[0]
        sh = rng.choice(list(states))
        if kind == "app":
            pc = pick_call(states[sh], rng.random() < 0.5)
            if pc is None:
                continue
            name, args = pc
            ev.append({"c": "IsApplicable", "d": "d", "u": "p", "act": name, "args": args, "s": sh,
                       "out": pylib.observe_applicable(dom, name, args, prob.objects, states[sh])})
        elif kind == "apply":
            pc = pick_call(states[sh], rng.random() < 0.75)
            if pc is None:
                continue
            name, args = pc
            r = rng.random()
            allow, skip = r < 0.25, 0.25 <= r < 0.35
            out, new = pylib.observe_apply(dom, name, args, prob.objects, states[sh], allow=allow, skip=skip)
            h = fresh("n")
            ev.append({"c": "Apply", "d": "d", "u": "p", "act": name, "args": args, "s": sh, "h": h, "allow": allow,
                       "skip": skip, "out": out})
            if new is not None:
                states[h] = new
        elif kind == "newop":
            pc = pick_call(states[sh], rng.random() < 0.7)
            if pc is None:
                continue
            name, args = pc
            h = fresh("op")
            try:
                ops[h] = pylib.new_operator(dom, name, args, prob.objects)
                ev.append({"c": "NewOperator", "h": h, "d": "d", "u": "p", "act": name, "args": args})
            except Exception:  # noqa: BLE001
                pass
        elif kind == "applyop" and ops:
            oh = rng.choice(list(ops))
            if last_op[0] is not None and rng.random() < 0.4:
                oh, sh = last_op[0]            # the same operator object on the same state object once more
            last_op[0] = (oh, sh)
            r = rng.random()
            allow = r < 0.4
            if rng.random() < 0.3:
                try:
                    out = {"val": bool(ops[oh].is_applicable(states[sh]))}
                except Exception as e:  # noqa: BLE001
                    out = {"exc": pylib.exc_name(e)}
                ev.append({"c": "IsApplicableOp", "op": oh, "s": sh, "out": out})
            else:
                out, new = pylib.observe_apply(dom, None, None, None, states[sh], allow=allow, skip=False, op=ops[oh])
                h = fresh("n")
                ev.append({"c": "ApplyOp", "op": oh, "s": sh, "h": h, "allow": allow, "skip": False, "out": out})
                if new is not None:
                    states[h] = new
        elif kind == "oprepeat" and ops:
            # one Operator object: asked about and applied to a state, then used on another state, then asked about and
            # applied to the first state again - the answers about the first state must not have changed
            oh = rng.choice(list(ops))
            other = rng.choice(list(states))
            for target in (sh, other, sh):
                try:
                    out = {"val": bool(ops[oh].is_applicable(states[target]))}
                except Exception as e:  # noqa: BLE001
                    out = {"exc": pylib.exc_name(e)}
                ev.append({"c": "IsApplicableOp", "op": oh, "s": target, "out": out})
                out, new = pylib.observe_apply(dom, None, None, None, states[target], allow=True, skip=False, op=ops[oh])
                h = fresh("n")
                ev.append({"c": "ApplyOp", "op": oh, "s": target, "h": h, "allow": True, "skip": False, "out": out})
                if new is not None:
                    states[h] = new
        elif kind == "copy":
            h = fresh("c")
            try:
                states[h] = states[sh].copy()
                ev.append({"c": "CopyState", "s": sh, "h": h, "out": {"st": pylib.project_state(states[h])}})
            except Exception as e:  # noqa: BLE001
                ev.append({"c": "CopyState", "s": sh, "h": h, "out": {"exc": pylib.exc_name(e)}})
        elif kind == "edit":
            # in-place change of a State object nobody else refers to (a copy or a successor), through its public
            # containers; the applicability of some call on it is asked just before and just after
            cands = [h for h in states if h[0] in "cn"]
            if not cands:
                continue
            sh = rng.choice(cands)
            pc = pick_call(states[sh], rng.random() < 0.5)
            if pc is not None:
                ev.append({"c": "IsApplicable", "d": "d", "u": "p", "act": pc[0], "args": pc[1], "s": sh,
                           "out": pylib.observe_applicable(dom, pc[0], pc[1], prob.objects, states[sh])})
            # a twin made just before the edit: afterwards the two differ by exactly that edit, and == is asked both ways
            twin = fresh("c")
            try:
                states[twin] = states[sh].copy()
                ev.append({"c": "CopyState", "s": sh, "h": twin, "out": {"st": pylib.project_state(states[twin])}})
            except Exception as e:  # noqa: BLE001
                ev.append({"c": "CopyState", "s": sh, "h": twin, "out": {"exc": pylib.exc_name(e)}})
                twin = None
            edit = pylib.edit_state(rng, dom, states[sh], gen_core.ground_atoms(objs))
            if edit is None:
                continue
            edit.update({"c": "EditState", "s": sh})
            ev.append(edit)
            if twin is not None:
                for a, b in ((sh, twin), (twin, sh)):
                    try:
                        out = {"val": bool(states[a] == states[b])}
                    except Exception as e:  # noqa: BLE001
                        out = {"exc": pylib.exc_name(e)}
                    ev.append({"c": "StateEq", "a": a, "b": b, "out": out})
            if pc is not None:
                ev.append({"c": "IsApplicable", "d": "d", "u": "p", "act": pc[0], "args": pc[1], "s": sh,
                           "out": pylib.observe_applicable(dom, pc[0], pc[1], prob.objects, states[sh])})
        elif kind == "groundrep":
            if not case.get("groundrep"):       # only where the RepeatedFluentArg finding is part of the property's record
                continue
            if case.get("trajrep") and rng.random() < 0.5:
                # an unrelated observation with one object twice in a fluent is read in between (stimulus only: what it
                # returns is not used; reading it must leave every other object of the process alone)
                o = objs[0][0]
                text = f"((:init (= (h {o} {o}) 1.0) (r))\n(operator: (noise {o}))\n(:state (= (h {o} {o}) 2.0) (r)))\n"
                tp = pylib.write_tmp(text, ".trajectory")
                try:
                    TrajectoryParser(dom, prob if rng.random() < 0.5 else None).parse_trajectory(tp)
                except Exception:  # noqa: BLE001
                    pass
                finally:
                    os.unlink(tp)
            # grounding (only) of a call that puts one object twice into a fluent term: the grounding itself is
            # judged under the RepeatedFluentArg finding; what matters here is that it leaves everything else alone
            found = None
            for _ in range(12):
                name, params = rng.choice(acts)
                args = type_correct_args(rng, params, objs)
                terms = [t for t in gen_core.fluent_terms(action_tree(case["dom"], name), [])]
                if gen_core.repeats_fluent_arg(terms, params, args, objs):
                    found = (name, args)
                    break
            if found is None:
                continue
            ev.append({"c": "Ground", "d": "d", "u": "p", "act": found[0], "args": found[1],
                       "out": pylib.observe_grounding(dom, found[0], found[1], prob.objects)})
        elif kind == "objs":
            try:
                out = {"names": sorted(states[sh].get_state_objects())}
            except Exception as e:  # noqa: BLE001
                out = {"exc": pylib.exc_name(e)}
            ev.append({"c": "StateObjects", "s": sh, "out": out})
        elif kind == "typed":
            try:
                out = pylib.project_typed_state(states[sh])
            except Exception as e:  # noqa: BLE001
                out = {"exc": pylib.exc_name(e)}
            ev.append({"c": "TypedSerialize", "d": "d", "u": "p", "s": sh, "out": out})
        elif kind == "flconds":
            try:
                conds = states[sh].convert_fluents_to_numeric_conditions()
                out = {"trees": [sexp_reader.read(c.to_pddl()) for c in conds]}
            except Exception as e:  # noqa: BLE001
                out = {"exc": pylib.exc_name(e)}
            ev.append({"c": "FluentConditions", "s": sh, "digits": int(os.environ.get("NUMERIC_PRECISION", 4)), "out": out})
        elif kind == "eq":
            sh2 = rng.choice(list(states))
            try:
                out = {"val": bool(states[sh] == states[sh2])}
            except Exception as e:  # noqa: BLE001
                out = {"exc": pylib.exc_name(e)}
            ev.append({"c": "StateEq", "a": sh, "b": sh2, "out": out})
        elif kind == "run":
            allow = rng.random() < 0.35
            ph, rprob, robjs, rs0 = second if second and rng.random() < 0.4 else ("p", prob, objs, s0)
            plan, cur = [], rs0
            names_r = {o for o, _ in robjs} | {c for c, _ in gen_core.CONSTS}
            if ph == "p2" and plans_done and rng.random() < 0.6:
                # the calls of an earlier plan of the first problem, word for word, as far as their objects exist here
                plan = [[n, list(a)] for n, a in rng.choice(plans_done) if all(x in names_r for x in a)]
            for _ in range(rng.randint(1, 6) if not plan else 0):
                pc = pick_call(cur, rng.random() < 0.7, robjs, rprob)
                if pc is None:
                    continue
                name, args = pc
                plan.append([name, args])
                try:
                    cur = pylib.new_operator(dom, name, args, rprob.objects).apply(cur, allow_inapplicable_actions=True)
                except Exception:  # noqa: BLE001
                    pass
            if not plan:
                continue
            if ph == "p":
                plans_done.append(plan)
            lines = [("(" + " ".join([n] + a) + ")") if rng.random() < 0.7 else ("(" + " ".join([n.upper()] + [x.upper() for x in a]) + ")\n")
                     for n, a in plan]
            h = fresh("r")
            try:
                if rng.random() < 0.5:
                    triplets = exporter[allow].parse_plan(rprob, action_sequence=lines)
                else:       # the same plan given as a file
                    pp = pylib.write_tmp("".join(x if x.endswith("\n") else x + "\n" for x in lines), ".plan")
                    try:
                        triplets = exporter[allow].parse_plan(rprob, plan_path=pp)
                    finally:
                        os.unlink(pp)
                runs[h] = triplets
                run_prob[h] = rprob
                ev.append({"c": "RunPlan", "h": h, "d": "d", "p": ph, "plan": plan, "allow": allow, "out": {"steps": proj_steps(triplets)}})
            except Exception as e:  # noqa: BLE001
                ev.append({"c": "RunPlan", "h": h, "d": "d", "p": ph, "plan": plan, "allow": allow, "out": {"exc": pylib.exc_name(e)}})
        elif kind == "export" and runs:
            rh = rng.choice(list(runs))
            try:
                text = "".join(TrajectoryExporter.export(runs[rh]))
                ev.append({"c": "ExportTrajectory", "r": rh, "out": {"tree": sexp_reader.read(text)}})
            except Exception as e:  # noqa: BLE001
                ev.append({"c": "ExportTrajectory", "r": rh, "out": {"exc": pylib.exc_name(e)}})
        elif kind == "parse" and runs:
            rh = rng.choice(list(runs))
            with_problem = rng.random() < 0.5
            try:
                if rng.random() < 0.5:
                    text = "".join(TrajectoryExporter.export(runs[rh]))
                    p = pylib.write_tmp(text, ".trajectory")
                else:       # written by the library itself
                    p = pylib.write_tmp("", ".trajectory")
                    exporter[False].export_to_file(runs[rh], p)
                try:
                    obs = traj_parser(run_prob[rh] if with_problem else None).parse_trajectory(p)
                finally:
                    os.unlink(p)
                comps = [{"pre": pylib.project_state(c.previous_state),
                          "op": [c.grounded_action_call.name, list(c.grounded_action_call.parameters)],
                          "post": pylib.project_state(c.next_state)} for c in obs.components]
                ev.append({"c": "ParseTrajectory", "r": rh, "withProblem": with_problem, "out": {"comps": comps}})
            except Exception as e:  # noqa: BLE001
                ev.append({"c": "ParseTrajectory", "r": rh, "withProblem": with_problem, "out": {"exc": pylib.exc_name(e)}})
        else:
            continue
        snap()
    return hist


def action_tree(dom, name):
    for c in dom["c"]:
        if c["t"] == "l" and c["c"] and c["c"][0].get("v") == ":action" and c["c"][1]["v"] == name:
            return c
    return {"t": "l", "c": []}
