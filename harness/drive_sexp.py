"""C11 driver: feeds texts to PDDLTokenizer (string and file input) and records the result.
record: {"id", "chars": [one-character strings], "mode": "str"|"file", "out": {"exc": name} | {"tree": tagged}}"""
import itertools
import os
import random

import pylib
from pylib import PDDLTokenizer

ALPHABET = ["(", ")", ";", " ", "\t", "\n", "\r\n", "a", "b", "A"]


def tag(x):
    if isinstance(x, list):
        return {"t": "l", "c": [tag(y) for y in x]}
    return {"t": "s", "v": x}


def observe(text, mode):
    try:
        if mode == "ref":
            import sexp_reader
            res = sexp_reader.read_plain(text)
        elif mode == "str":
            res = PDDLTokenizer(pddl_str=text).parse()
        else:
            p = pylib.write_tmp(text, ".txt", newline="")
            try:
                res = PDDLTokenizer(file_path=p).parse()
            finally:
                os.unlink(p)
        return {"tree": tag(res)}
    except Exception as e:  # noqa: BLE001
        return {"exc": pylib.exc_name(e)}


def record(rid, text, mode):
    return {"id": rid, "chars": list(text), "mode": mode, "out": observe(text, mode)}


def exhaustive(max_len):
    for n in range(0, max_len + 1):
        for tup in itertools.product(ALPHABET, repeat=n):
            yield "".join(tup)


def run_case(case, opts):
    """case: {"id", "text", "mode"}"""
    return record(case["id"], case["text"], case["mode"])
