"""Token tree -> characters (trusted base).  The layout choices (separator between two
tokens, letter case, comments) are made by a deterministic function of a seed so that the
spec side (Sexp!Writer) and this writer agree on what "a layout" is: any separator from
SEPS between tokens, nothing needed next to a parenthesis."""
import random
from fractions import Fraction

SEPS = [" ", "\t", "\n", "\r\n", "  ", " ; c (x) \n", "\n;;\n"]


def num_text(v, rng=None):
    fr = Fraction(v[0], v[1])
    if fr.denominator == 1:
        s = str(fr.numerator)
        if rng is not None and rng.random() < 0.2:
            s += ".0"
        return s
    # exact decimal when the denominator is 2^a5^b, else 6 decimals
    d = fr.denominator
    while d % 2 == 0:
        d //= 2
    while d % 5 == 0:
        d //= 5
    if d == 1:
        k = 0
        while (fr * 10 ** k).denominator != 1:
            k += 1
        return f"{float(fr):.{k}f}"
    return f"{float(fr):.6f}"


def flat(tree, rng=None):
    """canonical single-space rendering"""
    if tree["t"] == "l":
        return "(" + " ".join(flat(c, rng) for c in tree["c"]) + ")"
    if tree["t"] == "n":
        return tree.get("txt") or num_text(tree["v"], rng)
    return tree["v"]


def pretty(tree, indent=0):
    """readable multi-line rendering used for files the library reads"""
    if tree["t"] != "l":
        return flat(tree)
    one = flat(tree)
    if len(one) + indent <= 100 or not tree["c"]:
        return one
    parts = [pretty(c, indent + 2) for c in tree["c"]]
    head = parts[0] if tree["c"][0]["t"] != "l" else None
    pad = "\n" + " " * (indent + 2)
    if head is not None:
        return "(" + head + pad + pad.join(parts[1:]) + ")"
    return "(" + pad.join(parts) + ")"


def toks(tree, out):
    if tree["t"] == "l":
        out.append("(")
        for c in tree["c"]:
            toks(c, out)
        out.append(")")
    elif tree["t"] == "n":
        out.append(tree.get("txt") or num_text(tree["v"]))
    else:
        out.append(tree["v"])
    return out


def wild(tree, seed, upper=True, comments=True):
    """random layout: separators, case, comments; parens may touch their neighbours"""
    rng = random.Random(seed)
    ts = toks(tree, [])
    seps = SEPS if comments else SEPS[:5]
    s = rng.choice(["", " ", "\n", "; head\n"] if comments else ["", " ", "\n"])
    for i, t in enumerate(ts):
        if upper and rng.random() < 0.3 and t not in "()":
            t = t.upper() if rng.random() < 0.5 else t.capitalize()
        s += t
        if i + 1 < len(ts):
            nxt = ts[i + 1]
            if t in "()" or nxt in "()":
                s += rng.choice([""] + seps)
            else:
                s += rng.choice(seps)
    s += rng.choice(["", "\n", " ", "\n; tail comment (with parens)", "\n;\n"] if comments else ["", "\n"])
    return s
