"""C07, schedules: two threads share one parsed domain.  Thread A's call (an apply of an action with universal /
conditional effects) is pre-empted at its k-th executed line inside the library; thread B then runs a whole call
on the same domain; A resumes.  Both results are recorded and must be what the specification says for each call
on its own (all calls are reads of the shared schema).  A line-level cooperative scheduler built on sys.settrace
makes the interleaving deterministic; a B that blocks (a correct locking implementation) is detected by timeout
and A is resumed first."""
import random
import sys
import threading

import gen_core
import gen_hist
import layout
import pylib
from drive_core import domain_digest

LIB = "pddl_plus_parser"


class Preempt:
    """run fn_a in a thread; when it has executed `k` lines inside the library, hold it, run fn_b, release"""

    def __init__(self, k):
        self.k = k
        self.count = 0
        self.reached = threading.Event()
        self.resume = threading.Event()
        self.res_a = None

    def tracer(self, frame, event, arg):
        if LIB not in frame.f_code.co_filename:
            return None
        return self.local

    def local(self, frame, event, arg):
        if event == "line":
            self.count += 1
            if self.count == self.k:
                self.reached.set()
                self.resume.wait(5)
        return self.local

    def run(self, fn_a, fn_b):
        def target():
            sys.settrace(self.tracer)
            try:
                self.res_a = fn_a()
            finally:
                sys.settrace(None)
                self.reached.set()
        t = threading.Thread(target=target)
        t.start()
        self.reached.wait(10)
        done_before = not t.is_alive() and self.count < self.k
        res_b = [None]
        tb = threading.Thread(target=lambda: res_b.__setitem__(0, fn_b()))
        tb.start()
        tb.join(3)           # a B blocked on a lock held by A: let A finish first
        self.resume.set()
        t.join(10)
        tb.join(10)
        return self.res_a, res_b[0], done_before


def count_lines(fn):
    n = [0]

    def tracer(frame, event, arg):
        if LIB not in frame.f_code.co_filename:
            return None

        def local(frame, event, arg):
            if event == "line":
                n[0] += 1
            return local
        return local
    sys.settrace(tracer)
    try:
        fn()
    finally:
        sys.settrace(None)
    return n[0]


def run_case(case, opts):
    """case: gen_hist-style {dom, prob, objs, acts, seed}, plus "points": number of pre-emption points to try.
    Produces ONE history holding all interleavings (each as a pair of Apply / IsApplicable events)."""
    rng = random.Random(case["seed"])
    ev = []
    hist = {"id": case["id"], "ev": ev}
    dtext = layout.pretty(case["dom"])
    hist["text"] = dtext[dtext.find("(:action"):][:2000]
    dom = pylib.parse_domain_text(dtext)
    ev.append({"c": "ParseDomain", "h": "d", "tree": case["dom"], "out": {"vocab": pylib.vocab(dom), "digest": domain_digest(dom)}})
    out, prob = pylib.observe_problem(layout.pretty(case["prob"]), dom)
    ev.append({"c": "ParseProblem", "h": "p", "d": "d", "tree": case["prob"], "out": out})
    if prob is None:
        return hist
    s0 = pylib.State(prob.initial_state_predicates, prob.initial_state_fluents, is_init=True)
    ev.append({"c": "InitialState", "h": "s0", "p": "p", "out": {"st": pylib.project_state(s0)}})
    acts = case["acts"]
    objs = case["objs"]

    quantified = [a for a in acts if "forall" in layout.flat(gen_hist_action(case["dom"], a[0]))]

    def pick():
        for _ in range(30):
            # prefer actions with quantified effects / conditions: they are the ones that ever touched shared state
            name, params = rng.choice(quantified) if quantified and rng.random() < 0.7 else rng.choice(acts)
            names = [[o, t] for o, t in objs] + [[c, t] for c, t in gen_core.CONSTS]
            args = [rng.choice([n for n, t in names if gen_core.subtype(t, ty)]) for _, ty in params]
            if not gen_core.repeats_fluent_arg(gen_core.fluent_terms(gen_hist_action(case["dom"], name), []), params, args, objs):
                return name, args
        return None
    k_events = 0
    for _ in range(case.get("pairs", 3)):
        a, b = pick(), pick()
        if a is None or b is None:
            continue

        def call(c, kind):
            if kind == "apply":
                return lambda: pylib.observe_apply(dom, c[0], c[1], prob.objects, s0, allow=True)[0]
            return lambda: pylib.observe_applicable(dom, c[0], c[1], prob.objects, s0)
        kind_b = rng.choice(["apply", "app"])
        n = count_lines(call(a, "apply"))
        points = sorted(set(rng.sample(range(1, n + 1), min(n, case.get("points", 25)))))
        for k in points:
            ra, rb, _ = Preempt(k).run(call(a, "apply"), call(b, kind_b))
            k_events += 1
            ev.append({"c": "Apply", "d": "d", "u": "p", "act": a[0], "args": a[1], "s": "s0", "h": f"ta{k_events}", "allow": True,
                       "skip": False, "out": ra if ra is not None else {"exc": "thread-did-not-finish"}, "thread": "A", "preempted_at": k})
            if kind_b == "apply":
                ev.append({"c": "Apply", "d": "d", "u": "p", "act": b[0], "args": b[1], "s": "s0", "h": f"tb{k_events}", "allow": True,
                           "skip": False, "out": rb if rb is not None else {"exc": "thread-did-not-finish"}, "thread": "B"})
            else:
                ev.append({"c": "IsApplicable", "d": "d", "u": "p", "act": b[0], "args": b[1], "s": "s0",
                           "out": rb if rb is not None else {"exc": "thread-did-not-finish"}, "thread": "B"})
        ev.append({"c": "Snap", "snap": {"d": domain_digest(dom), "s0": pylib.project_state(s0)}})
    return hist


def gen_hist_action(dom, name):
    for c in dom["c"]:
        if c["t"] == "l" and c["c"] and c["c"][0].get("v") == ":action" and c["c"][1]["v"] == name:
            return c
    return {"t": "l", "c": []}
