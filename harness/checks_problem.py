"""C05: problem text is parsed faithfully and ill-formed facts are rejected."""
import json
import random

import gen_problem


def run(ctx):
    quick = ctx.quick
    rng = random.Random(ctx.seed)
    ctx.mc("MC_Problem", {}, ["BaseWellFormed", "CorruptionsIllFormed", "ReadBack"], workers=4)
    ctx.mc("MC_Problem", {}, ["BadGoalUnchecked"], workers=4, expect_violation=True)
    gen_file = ctx.work / "gen_problem.ndjson"
    ctx.gen("Gen_Problem", {}, gen_file)
    cases = [json.loads(x) for x in open(gen_file)]
    n_gen = len(cases)
    for i in range(400 if quick else 6000):
        cases.append(gen_problem.gen_problem(rng, 100000 + i, alt_types=i % 4 == 3))
    tf = ctx.drive("problem", cases, hashseeds=(0, 1, 2) if quick else tuple(range(16)))
    ctx.validate(tf, {c["id"]: c for c in cases}, driver="problem")
    acc = rej = 0
    for line in open(tf):
        h = json.loads(line)
        for e in h["ev"]:
            if e["c"] == "ParseProblem":
                if "exc" in e["out"]:
                    rej += 1
                else:
                    acc += 1
                ctx.nontrivial.add(h.get("text", ""))
        if len(ctx.samples) < 2 and h.get("kind") not in ("base", None):
            ctx.sample({"kind": h.get("kind"), "text": h.get("text", "")[:700]})
    ctx.extra["accepted"] = acc
    ctx.extra["rejected"] = rej
    ctx.rule = (f"G: all {n_gen} problems of spec/ProblemFamily.tla (3 base problems x 3 object-list styles and every single-point "
                "corruption: wrong type / arity +-1 / undeclared symbol or object in facts, fluents, goal literals, goal "
                "fluents; other domain; unknown object type); V: random problems over a 3-level typed domain with constants, "
                "random number formats and layouts, about half of them with one random corruption, one in eight parsed over a "
                "domain with the same type names arranged in a different tree (each worker process parses hundreds of "
                "problems over several trees, in sequence). TLC decides "
                "well-formedness (Syntax!WFProblem) and content. distinct_nontrivial = distinct problem texts")
    ctx.assumptions += ["assert-based type checks of the library are observed under the default interpreter (no -O)"]
