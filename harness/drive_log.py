"""C19 driver: planner logs (Metric-FF layout, ENHSP one-action-per-line) through the output parsers.
The log is handed to the specification as lines of tokens [l: lower-cased text, k: lexical kind]."""
import os
import re

import pylib
import sexp_reader
from pddl_plus_parser.exporters import ENHSPParser, MetricFFParser

FF_PARSER = None

STEPNO = re.compile(r"^\d+:$")


def lex(text):
    lines = []
    for line in re.split(r"\r\n|\n", text):
        lines.append([{"l": t.lower(), "k": "stepno" if STEPNO.match(t) else "w"} for t in line.split()])
    if lines and lines[-1] == []:
        lines.pop()          # the piece after the final line terminator is not a line
    return lines


def actions(plan_lines):
    out = []
    for ln in plan_lines:
        ln = ln.strip()
        if not ln:
            continue
        t = sexp_reader.read_plain(ln)
        out.append(t if isinstance(t, list) else [t])
    return out


def run_case(case, opts):
    global FF_PARSER
    if FF_PARSER is None:
        FF_PARSER = MetricFFParser()       # one parser object for all the logs of the process
    text = case["text"]
    rec = {"id": case["id"], "kind": case["kind"], "lines": lex(text), "text": text[-1500:]}
    if case["id"] % 2:
        # the planner loop of a user: every run overwrites the same output file
        p = pylib.scratch_dir() / "planner_output.txt"
        with open(p, "wt", encoding="utf-8", newline="") as f:
            f.write(text)
    else:
        p = pylib.write_tmp(text, ".out", newline="")
    try:
        if case["kind"] == "ff":
            outp = str(p) + ".plan"
            if case["id"] % 3 == 0:
                # the plan file is written first: the parser object's last status query was about the previous log
                FF_PARSER.parse_plan(p, outp)
                status, seq = FF_PARSER.get_solving_status(p)
            else:
                status, seq = FF_PARSER.get_solving_status(p)
                FF_PARSER.parse_plan(p, outp)
            file_plan = actions(open(outp).read().split("\n")) if os.path.exists(outp) else []
            if os.path.exists(outp):
                os.unlink(outp)
            rec["out"] = {"status": status, "plan": actions(seq), "file": file_plan}
        else:
            seq = ENHSPParser.parse_plan_content(p)
            rec["out"] = {"plan": [ln.split() for ln in seq]}
            rec["lines"] = [[{"l": t.lower(), "k": "w"} for t in ln.split()] for ln in re.split(r"\r\n|\n", text)]
            if rec["lines"] and rec["lines"][-1] == []:
                rec["lines"].pop()
    except Exception as e:  # noqa: BLE001
        rec["out"] = {"exc": pylib.exc_name(e)}
    finally:
        os.unlink(p)
    return rec
