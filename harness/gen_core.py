"""Random generator of semantic-core cases (domains as token trees, typed universes, states,
calls).  It produces *inputs* only; what they mean is decided by the TLA+ specification,
which reads the same token tree.

A case:
  {"id", "tree": domain token tree, "objs": [[o,t]..], "states": [{facts,fl}..],
   "calls": [{"act","args","s": state index,"mode":"app"|"apply","allow","skip"}..]}
"""
import random

S = lambda v: {"t": "s", "v": v}  # noqa: E731
N = lambda n, d=1: {"t": "n", "v": [n, d]}  # noqa: E731
L = lambda *c: {"t": "l", "c": list(c)}  # noqa: E731

TYPES = [("t1", "object"), ("t2", "t1"), ("t3", "object")]
PREDS = {"p": ["t1"], "q": ["t1", "object"], "r": [], "s": ["t3"]}
FUNCS = {"f": ["t1"], "g": [], "h": ["object", "object"]}
OBJS = [["o1", "t2"], ["o2", "t1"], ["o3", "t3"], ["o4", "t2"]]
CONSTS = [["k", "t3"], ["w0", "object"]]     # one constant of a declared type, one of the root type
PARENT = {"t1": "object", "t2": "t1", "t3": "object", "object": None}


def subtype(a, b):
    while a is not None:
        if a == b:
            return True
        a = PARENT[a]
    return False


def typed(pairs):
    out = []
    for n, t in pairs:
        out += [S(n), S("-"), S(t)]
    return out


def vals_grid(rng):
    return rng.choice([N(0), N(1), N(2), N(3), N(-1), N(1, 2), N(3, 2), N(-5, 2), N(1, 4), N(7), N(10)])


FINE = [N(1, 8), N(1, 16), N(33, 16), N(-3, 8), N(5, 8), N(9999, 10000), N(10001, 10000), N(19999, 10000)]


def has_fluent(tree):
    if tree["t"] != "l":
        return False
    h = tree["c"][0]
    if h["t"] == "s" and h["v"] in FUNCS:
        return True
    return any(has_fluent(c) for c in tree["c"])


def fluent_leaves(tree, acc):
    if tree["t"] != "l":
        return acc
    h = tree["c"][0]
    if h["t"] == "s" and h["v"] in FUNCS:
        acc.append(tree)
        return acc
    for c in tree["c"]:
        fluent_leaves(c, acc)
    return acc


def layout_flat(tree):
    if tree["t"] == "l":
        return "(" + " ".join(layout_flat(c) for c in tree["c"]) + ")"
    return str(tree["v"])


class Gen:
    def __init__(self, rng, params, with_forall=True, with_numeric=True, with_consts=True, with_shadow=False, shadow_p=0.15,
                 with_eqonly=False):
        self.with_eqonly = with_eqonly
        self.with_shadow = with_shadow
        self.shadow_p = shadow_p
        self.rng = rng
        self.params = params  # [[name,type]...]
        self.with_forall = with_forall
        self.with_numeric = with_numeric
        self.with_consts = with_consts

    def terms_of(self, ty, extra=()):
        """terms (params / consts) whose type conforms to ty"""
        scope = {}
        for n, t in list(self.params) + list(extra):     # an inner binding hides a parameter of the same name
            scope[n] = t
        out = [n for n, t in scope.items() if subtype(t, ty)]
        if self.with_consts:
            out += [c for c, t in CONSTS if subtype(t, ty)]
        return out

    def atom(self, extra=(), name=None):
        rng = self.rng
        for _ in range(20):
            p = name or rng.choice(list(PREDS))
            args = []
            ok = True
            for ty in PREDS[p]:
                c = [x for x in self.terms_of(ty, extra) if x not in args]  # no repeated argument
                if not c:
                    ok = False
                    break
                args.append(rng.choice(c))
            if ok:
                return L(S(p), *[S(a) for a in args])
        return L(S("r"))

    def fluent(self, extra=()):
        rng = self.rng
        for _ in range(20):
            f = rng.choice(list(FUNCS))
            args = []
            ok = True
            for ty in FUNCS[f]:
                c = [x for x in self.terms_of(ty, extra) if x not in args]
                if not c:
                    ok = False
                    break
                args.append(rng.choice(c))
            if ok:
                return L(S(f), *[S(a) for a in args])
        return L(S("g"))

    def expr(self, depth, extra=()):
        rng = self.rng
        r = rng.random()
        if depth == 0 or r < 0.3:
            return self.fluent(extra) if rng.random() < 0.6 else vals_grid(rng)
        op = rng.choice(["+", "-", "*", "/"])
        left = self.expr(depth - 1, extra)
        if op == "/":
            right = rng.choice([N(2), N(4), N(-2), N(1, 2)])  # dyadic divisors keep values exact
        else:
            right = self.expr(depth - 1, extra)
        if op == "*":
            # multiplication by a literal zero folds the whole term away in the simplifier
            if left == N(0):
                left = N(2)
            if right == N(0):
                right = N(2)
        if left == right:
            # x - x, x / x: folded to a constant by the symbolic simplifier (C13's territory)
            right = rng.choice([N(2), N(3), N(1, 2)])
        if left["t"] == "n" and right["t"] == "n":
            # arithmetic on two literals is folded by the symbolic simplifier in ways it cannot always
            # print back ((- 0 -1)); such constant sub-expressions are kept out of the fragment
            left = self.fluent(extra)
        return L(S(op), left, right)

    def side(self, depth, extra):
        """one side of a comparison: no fluent occurs twice (a fluent that cancels, as in (- (- (g) 3) (g)),
        is folded to a constant by the symbolic simplifier that prints nested / conditional conditions)"""
        for _ in range(6):
            e = self.expr(depth, extra)
            leaves = [layout_flat(x) for x in fluent_leaves(e, [])]
            if len(leaves) == len(set(leaves)):
                return e
        return self.fluent(extra)

    def cmp(self, extra=()):
        rng = self.rng
        left, right = self.side(rng.choice([0, 1, 1, 2]), extra), self.side(rng.choice([0, 0, 1]), extra)
        if not has_fluent(left) and not has_fluent(right):  # comparisons of constants are not in the fragment
            left = self.fluent(extra)
        op = rng.choice(["<", "<=", "=", ">=", ">"])
        if op == "=":
            # equalities are hashed through the symbolic simplifier when nested; one that simplifies
            # to a constant truth value (x - x = 1, 0 * x = c) is outside what it can print
            left = self.fluent(extra)
            right = vals_grid(rng) if rng.random() < 0.7 else self.fluent(extra)
            if right == left:
                right = vals_grid(rng)
        if rng.random() < 0.3:
            left, right = right, left
        return L(S(op), left, right)

    def lit(self, extra=()):
        rng = self.rng
        r = rng.random()
        if r < 0.35:
            return self.atom(extra)
        if r < 0.6:
            return L(S("not"), self.atom(extra))
        names = self.terms_of("object", extra)
        if r < 0.7 and len(names) >= 2:
            a, b = rng.sample(names, 2)
            return L(S("="), S(a), S(b))
        if r < 0.8 and len(names) >= 2:
            a, b = rng.sample(names, 2)
            return L(S("not"), L(S("="), S(a), S(b)))
        if self.with_numeric:
            return self.cmp(extra)
        return self.atom(extra)

    def member(self, depth, extra=(), in_forall=False):
        rng = self.rng
        r = rng.random()
        if depth == 0 or r < 0.5:
            return self.lit(extra)
        names = self.terms_of("object", extra) if self.with_eqonly else []
        if len(names) >= 2 and rng.random() < 0.3:
            # a nested connective all of whose members are object (in)equalities
            ms = []
            for _ in range(rng.choice([1, 2, 2])):
                a, b = rng.sample(names, 2)
                e = L(S("="), S(a), S(b))
                ms.append(e if rng.random() < 0.5 else L(S("not"), e))
            return L(S(rng.choice(["and", "or", "or"])), *ms)
        if r < 0.8:
            k = rng.choice(["and", "or", "or"])
            return L(S(k), *[self.member(depth - 1, extra, in_forall) for _ in range(rng.choice([1, 2, 2, 3]))])
        if self.with_forall and not in_forall:
            v = "?w"
            ty = rng.choice(["t1", "t2", "object"])
            body = L(S(rng.choice(["and", "or"])),
                     *[self.member(depth - 1, list(extra) + [[v, ty]], True) for _ in range(rng.choice([1, 2]))])
            return L(S("forall"), L(S(v), S("-"), S(ty)), body)
        return self.lit(extra)

    def pre(self):
        rng = self.rng
        n = rng.choice([0, 1, 1, 2, 2, 3])
        if n == 0 and rng.random() < 0.5:
            return L()
        return L(S("and"), *[self.member(rng.choice([0, 1, 2]), ()) for _ in range(n)])

    def simple_eff(self, extra=()):
        rng = self.rng
        r = rng.random()
        if r < 0.35:
            return self.atom(extra)
        if r < 0.65:
            return L(S("not"), self.atom(extra))
        if not self.with_numeric:
            return self.atom(extra)
        rhs = self.expr(rng.choice([0, 1, 2]), extra)
        if rng.random() < 0.2:
            # constants that need the 3rd / 4th decimal: effects are printed with 4 decimals (conditions with 2)
            fine = rng.choice(FINE)
            rhs = fine if rhs["t"] == "n" or rng.random() < 0.5 else L(S(rng.choice(["+", "-"])), rhs, fine)
        return L(S(rng.choice(["assign", "increase", "decrease"])), self.fluent(extra), rhs)

    def cond(self, extra=()):
        rng = self.rng
        if rng.random() < 0.5:
            return self.lit(extra)
        return L(S("and"), *[self.member(rng.choice([0, 0, 1]), extra) for _ in range(rng.choice([1, 2]))])

    def body(self, extra=()):
        rng = self.rng
        if rng.random() < 0.4:
            return self.simple_eff(extra)
        return L(S("and"), *[self.simple_eff(extra) for _ in range(rng.choice([1, 2, 2]))])

    def eff(self):
        rng = self.rng
        items = []
        for _ in range(rng.choice([1, 2, 2, 3])):
            r = rng.random()
            if r < 0.5:
                items.append(self.simple_eff())
            elif r < 0.8:
                items.append(L(S("when"), self.cond(), self.body()))
            elif self.with_forall:
                v = "?z"
                ty = rng.choice(["t1", "t2", "object"])
                if self.with_shadow and self.params and rng.random() < self.shadow_p:
                    v = rng.choice(self.params)[0]      # the bound variable re-uses (shadows) a parameter's name
                ex = [[v, ty]]
                items.append(L(S("forall"), L(S(v), S("-"), S(ty)), L(S("when"), self.cond(ex), self.body(ex))))
            else:
                items.append(self.simple_eff())
        return L(S("and"), *items)


def domain_tree(actions, name="dom", consts=True, reqs=(":typing",), types=None):
    parts = [S("define"), L(S("domain"), S(name)), L(S(":requirements"), *[S(r) for r in reqs]),
             L(S(":types"), *typed(types or TYPES))]
    if consts:
        parts.append(L(S(":constants"), *typed(CONSTS)))
    parts.append(L(S(":predicates"), *[L(S(p), *typed([[f"?a{i}", t] for i, t in enumerate(sig)]))
                                      for p, sig in PREDS.items()]))
    parts.append(L(S(":functions"), *[L(S(f), *typed([[f"?a{i}", t] for i, t in enumerate(sig)]))
                                     for f, sig in FUNCS.items()]))
    for name_, params, pre, eff in actions:
        parts.append(L(S(":action"), S(name_), S(":parameters"), L(*typed(params)),
                       S(":precondition"), pre, S(":effect"), eff))
    return L(*parts)


def ground_atoms(objs, consts=True):
    names = [[o, t] for o, t in objs] + ([[c, t] for c, t in CONSTS] if consts else [])
    out = []
    for p, sig in PREDS.items():
        combos = [[]]
        for ty in sig:
            combos = [c + [n] for c in combos for n, t in names if subtype(t, ty)]
        out += [[p, c] for c in combos]
    return out


def ground_fluents(objs, consts=True):
    names = [[o, t] for o, t in objs] + ([[c, t] for c, t in CONSTS] if consts else [])
    out = []
    for f, sig in FUNCS.items():
        combos = [[]]
        for ty in sig:
            combos = [c + [n] for c in combos for n, t in names if subtype(t, ty)]
        # fluents with a repeated argument are a known finding of their own (C09/C10/C14)
        out += [[f, c] for c in combos if len(set(c)) == len(c)]
    return out


GRID = [[0, 1], [1, 1], [2, 1], [3, 1], [-1, 1], [1, 2], [3, 2], [5, 1], [-5, 2], [1, 4], [10, 1]]


def random_state(rng, objs, density=None):
    atoms = ground_atoms(objs)
    d = density if density is not None else rng.choice([0.15, 0.3, 0.5, 0.7])
    facts = [a for a in atoms if rng.random() < d]
    fl = [[f, a, rng.choice(GRID)] for f, a in ground_fluents(objs)]
    return {"facts": facts, "fl": fl}


def jitter_states(rng, case, step=8):
    """move fluent values by 0 or +-1/step: with the tolerance configured to 2/step the two sides of a
    comparison are then often less than one tolerance apart without being equal"""
    from fractions import Fraction
    for st in case["states"]:
        for f in st["fl"]:
            v = Fraction(f[2][0], f[2][1]) + Fraction(rng.choice([0, 1, -1, 1, -1]), step)
            f[2] = [v.numerator, v.denominator]
    return case


def calls_for(rng, params, objs, n):
    names = [[o, t] for o, t in objs] + [[c, t] for c, t in CONSTS]
    out = []
    for _ in range(n):
        args = []
        for _, ty in params:
            args.append(rng.choice([n_ for n_, t in names if subtype(t, ty)]))
        out.append(args)
    return out


PARAM_SETS = [
    [["?x", "t1"], ["?y", "object"]],
    [["?x", "t1"]],
    [["?x", "t2"], ["?y", "t1"], ["?v", "t3"]],
    [],
]


def fluent_terms(tree, acc, q=()):
    """argument lists of all fluent terms (f a b), each with the quantified variables in
    scope: [([args], {var: type})]"""
    if tree["t"] != "l" or not tree["c"]:
        return acc
    head = tree["c"][0]
    if head["t"] == "s" and head["v"] in FUNCS and all(c["t"] == "s" for c in tree["c"]):
        acc.append(([c["v"] for c in tree["c"][1:]], dict(q)))
    if head["t"] == "s" and head["v"] in ("forall", "exists") and len(tree["c"]) == 3:
        b = tree["c"][1]["c"]
        q = tuple(q) + ((b[0]["v"], b[2]["v"]),)
    for c in tree["c"]:
        fluent_terms(c, acc, q)
    return acc


def repeats_fluent_arg(terms, params, args, objs):
    """can grounding put the same object twice into one fluent term?"""
    env = {p: a for (p, _), a in zip(params, args)}
    ty = dict(objs)
    ty.update(dict(CONSTS))
    for t, q in terms:
        fixed = [env.get(x, x) for x in t if x not in q]
        if len(set(fixed)) != len(fixed):
            return True
        qv = [x for x in t if x in q]
        if len(set(qv)) != len(qv):
            return True
        for v in qv:
            if any(subtype(ty[o], q[v]) for o in fixed if o in ty):
                return True
        if len(qv) >= 2:
            return True
    return False


def gen_case(seed, cid, n_states=4, n_calls=3, ground_only=False, **kw):
    rng = random.Random(seed * 1000003 + cid)
    params = rng.choice(PARAM_SETS)
    g = Gen(rng, params, **kw)
    tree = domain_tree([("act", params, g.pre(), g.eff())])
    objs = list(OBJS) if rng.random() < 0.7 else OBJS[:3]
    states = [random_state(rng, objs) for _ in range(n_states)]
    calls = []
    if ground_only:
        # grounding only: every kind of call, repeated objects and constants included
        for args in calls_for(rng, params, objs, n_calls * 3):
            calls.append({"act": "act", "args": args, "s": 0, "mode": "ground"})
        return {"id": cid, "tree": tree, "objs": objs, "states": states[:1], "calls": calls}
    terms = fluent_terms(tree["c"][-1], [])
    for args in calls_for(rng, params, objs, n_calls * 2):
        # grounding a fluent onto a repeated object is a known finding of its own
        # (RepeatedFluentArg, exercised by dedicated cases), not mixed into these
        if repeats_fluent_arg(terms, params, args, objs) or len([c for c in calls if c["s"] == 0]) >= 2 * n_calls:
            continue
        for si in range(n_states):
            calls.append({"act": "act", "args": args, "s": si, "mode": "app"})
            r = rng.random()
            calls.append({"act": "act", "args": args, "s": si, "mode": "apply",
                          "allow": r < 0.3, "skip": 0.3 <= r < 0.4})
    return {"id": cid, "tree": tree, "objs": objs, "states": states, "calls": calls}


def gen_eq_case(seed, cid, n_states=3, n_calls=6):
    """an action whose precondition holds several (in)equalities between its parameters (pairwise distinct,
    two equal and one different, ...): what a renaming must carry over constraint by constraint; the calls
    repeat objects freely"""
    rng = random.Random(seed * 1000003 + cid)
    params = [["?a", "t1"], ["?b", "t1"], ["?c", rng.choice(["t1", "object"])]]
    names = [p for p, _ in params]
    pairs = [(names[i], names[j]) for i in range(3) for j in range(3) if i < j]
    rng.shuffle(pairs)
    members = []
    for a, b in pairs[:rng.choice([2, 3, 3])]:
        if rng.random() < 0.5:
            a, b = b, a
        eq = L(S("="), S(a), S(b))
        members.append(eq if rng.random() < 0.3 else L(S("not"), eq))
    g = Gen(rng, params, with_forall=False, with_numeric=False)
    if rng.random() < 0.6:
        members.insert(rng.randrange(len(members) + 1), g.atom())
    pre = L(S("and"), *members)
    eff = L(S("and"), *[g.simple_eff() for _ in range(rng.choice([1, 2]))])
    tree = domain_tree([("act", params, pre, eff)])
    objs = list(OBJS)
    states = [random_state(rng, objs) for _ in range(n_states)]
    calls = []
    for args in calls_for(rng, params, objs, n_calls):
        for si in range(n_states):
            calls.append({"act": "act", "args": args, "s": si, "mode": "app"})
    return {"id": cid, "tree": tree, "objs": objs, "states": states, "calls": calls}


def rename_map(rng, params, kinds=("fresh", "perm", "perm", "chain", "param_i")):
    """an injective renaming of all the parameters: fresh names, a permutation of the existing ones or a chain
    (quantified variables ?z / ?w are never used as new names); the pairs of the map come in declaration order
    or in a random one (a caller's dict need not follow the parameter list)"""
    m = _rename_map(rng, params, kinds)
    if len(m) >= 2 and rng.random() < 0.5:
        items = list(m.items())
        rng.shuffle(items)
        m = dict(items)
    return m


def _rename_map(rng, params, kinds):
    names = [p for p, _ in params]
    if not names:
        return {}
    kind = rng.choice(list(kinds))
    if kind == "fresh":
        return {n: f"?n{i}" for i, n in enumerate(names)}
    if kind == "param_i":
        return {n: f"?param_{i}" for i, n in enumerate(names)}
    if kind == "perm" and len(names) >= 2:
        sh = names[:]
        while sh == names:
            rng.shuffle(sh)
        return dict(zip(names, sh))
    if kind == "chain" and len(names) >= 2:
        return {names[i]: (names[i + 1] if i + 1 < len(names) else "?fresh") for i in range(len(names))}
    return {n: f"?m{i}" for i, n in enumerate(names)}


def edit_literal(rng, params, tree):
    """a literal over the action's parameters that does not occur in its precondition (to be added and removed)"""
    g = Gen(rng, params, with_consts=False)
    pre_text = layout_flat(tree["c"][-1])
    for _ in range(20):
        a = g.atom()
        pos = rng.random() < 0.6
        txt = layout_flat(a)
        if txt not in pre_text:
            return [pos, a["c"][0]["v"], [x["v"] for x in a["c"][1:]]]
    return None
