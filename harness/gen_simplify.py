"""C13 inputs: numeric conditions (polynomial / rational forms, assorted coefficient kinds and fluent names)."""
import random
from fractions import Fraction

from gen_core import S, L, N, typed

FUNCS = {"fuel-level": ["t1"], "load_2": ["t1", "t1"], "x": [], "y": [], "cost3": ["t1"], "total-cost": [],
         "pi": [], "f-x": ["t1"], "fx": ["t1"], "f": ["t1"], "s": [], "n": []}
TERMS = [L(S("fuel-level"), S("?a")), L(S("load_2"), S("?a"), S("?b")), L(S("x")), L(S("y")), L(S("cost3"), S("?b")), L(S("total-cost")),
         L(S("pi")), L(S("f-x"), S("?a")), L(S("fx"), S("?a")), L(S("f"), S("?u")), L(S("s")), L(S("n"))]

INTS = [1, 2, 3, 5, 7, -1, -3]
DECS = [(1, 2), (9, 4), (3, 2), (-5, 2), (1, 4), (7, 2)]
# near-integer constants that still lie inside the 15-bit bound within which the specification evaluates exactly
# (2.99999 = 299999/100000 would make every grid evaluation undetermined)
NEAR = [(9999, 10000), (10001, 10000), (-9999, 10000), (-10001, 10000), (99999, 100000), (299999, 100000)]


def frac_digits(fr):
    """decimal digits after the point of a terminating fraction (99 if it does not terminate)"""
    d = fr.denominator
    k = 0
    while d % 10 == 0:
        d //= 10
        k += 1
    a = b = 0
    while d % 2 == 0:
        d //= 2
        a += 1
    while d % 5 == 0:
        d //= 5
        b += 1
    return 99 if d != 1 else k + max(a, b)


class G:
    def __init__(self, rng, terms, kinds):
        self.rng, self.terms, self.kinds = rng, terms, kinds
        self.sigs = set()
        self.need = 0          # an upper bound on the decimals an exact simplification can need

    def const(self, divisor=False):
        rng = self.rng
        kind = rng.choice(self.kinds)
        if divisor:
            c = Fraction(rng.choice([2, 4, 5, 10, 8, -2]))
            self.need += frac_digits(1 / c)
            return N(c.numerator, c.denominator)
        if kind == "int":
            c = Fraction(rng.choice(INTS))
        elif kind == "dec":
            c = Fraction(*rng.choice(DECS))
        else:
            c = Fraction(*rng.choice(NEAR))
        self.need += frac_digits(c)
        return N(c.numerator, c.denominator)

    def term(self):
        return self.rng.choice(self.terms)

    def mono(self, deg):
        rng = self.rng
        for _ in range(20):
            ts = sorted((self.term() for _ in range(deg)), key=str)
            sig = str(ts)
            if sig not in self.sigs:      # like monomials would merge or cancel: keep them distinct
                break
        else:
            return None
        self.sigs.add(sig)
        t = ts[0]
        for u in ts[1:]:
            t = L(S("*"), t, u)
        r = rng.random()
        if r < 0.5:
            return L(S("*"), self.const(), t) if rng.random() < 0.5 else L(S("*"), t, self.const())
        if r < 0.65:
            return L(S("/"), t, self.const(divisor=True))
        if r < 0.8:
            # an exact fraction with an integer part, e.g. 7x/2 or 9x/4 (a sympy Rational coefficient)
            c = rng.choice([3, 5, 7, 9, 11])
            d = rng.choice([2, 4, 8])
            self.need += frac_digits(Fraction(c, d))
            return L(S("/"), L(S("*"), N(c), t), N(d))
        return t

    def poly(self, n_terms, max_deg):
        rng = self.rng
        e = self.mono(rng.randint(1, max_deg)) or self.term()
        for _ in range(n_terms - 1):
            m = self.mono(rng.randint(1, max_deg)) if rng.random() < 0.8 else self.const()
            if m is not None:
                e = L(S(rng.choice(["+", "-", "+"])), e, m)
        return e

    def cond(self, max_deg=3):
        rng = self.rng
        self.sigs = set()
        op = rng.choice(["<", "<=", "=", ">=", ">"])
        left = self.poly(rng.randint(1, 3), max_deg)
        right = self.const() if rng.random() < 0.7 else (self.mono(1) or self.const())
        return L(S(op), left, right)

    def rational(self):
        rng = self.rng
        t = self.term()
        form = rng.choice(["c/x", "x/c", "1/xx"])
        if form == "c/x":
            left = L(S("/"), self.const(), t)
        elif form == "x/c":
            left = L(S("/"), t, self.const(divisor=True))
        else:
            left = L(S("/"), N(1), L(S("*"), t, t))
        return L(S(rng.choice(["<", "<=", ">=", ">"])), left, self.const())

    def equality(self):
        """(= (+ A B) c): usable for eliminating A"""
        a, b = self.rng.sample(self.terms, 2)
        if self.rng.random() < 0.3:       # A = B written as a difference that is zero
            return L(S("="), L(S("-"), a, b), N(0))
        return L(S("="), L(S("+"), a, L(S("*"), self.const(), b)), self.const())


def domain_tree(conds):
    return L(S("define"), L(S("domain"), S("sd")), L(S(":requirements"), S(":typing")),
             L(S(":types"), *typed([["t1", "object"]])),
             L(S(":predicates"), L(S("p"), *typed([["?z", "t1"]]))),
             L(S(":functions"), *[L(S(f), *typed([[f"?v{i}", t] for i, t in enumerate(sig)])) for f, sig in FUNCS.items()]),
             L(S(":action"), S("act"), S(":parameters"), L(*typed([["?a", "t1"], ["?b", "t1"], ["?u", "t1"]])),
               S(":precondition"), L(S("and"), *conds), S(":effect"), L(S("and"), L(S("p"), S("?a")))))


def aligned_case(seed, cid):
    """one linear condition whose coefficient is +-1 +- 1e-4 and whose threshold is what the *integer* gives at
    a grid point: (<= (* 1.0001 (x)) 2) is false at x = 2 and true with the coefficient rounded, so a coefficient
    that lost its fourth decimal shows at the grid point itself (requested with 4, 5 or 6 decimals).  The constants
    stay inside the 15-bit bound within which the specification evaluates exactly."""
    rng = random.Random(seed * 2750159 + cid)
    t = rng.choice(TERMS)
    k = rng.choice([1, -1])
    c = Fraction(k) + rng.choice([1, -1]) * Fraction(1, 10000)
    x0 = Fraction(rng.choice([1, 2, 3, 4, -2, -1])) / rng.choice([1, 2])
    b = Fraction(rng.choice([0, 0, 1, -3, 1]), rng.choice([1, 2]))
    thr = k * x0 + b
    lin = L(S("*"), N(c.numerator, c.denominator), t) if rng.random() < 0.5 else L(S("*"), t, N(c.numerator, c.denominator))
    left = lin if b == 0 else L(S("+"), lin, N(b.numerator, b.denominator))
    cond = L(S(rng.choice(["<", "<=", "=", ">=", ">"])), left, N(thr.numerator, thr.denominator))
    return {"id": cid, "tree": domain_tree([cond]), "digits": rng.choice([4, 5, 6]), "how": rng.choice(["tree", "print"]),
            "exact": True, "need": 4, "shape": "aligned"}


def eqdiff_case(seed, cid):
    """two fluents tied by an equality written as a difference (or a sum) that is zero, and inequalities that
    mention the one an elimination would remove: (= (- A B) 0) means A = B, (= (+ A B) 0) means A = -B"""
    rng = random.Random(seed * 2750159 + cid)
    a, b, c = rng.sample(TERMS, 3)
    eq = L(S("="), L(S(rng.choice(["-", "-", "+"])), a, b), N(0))
    conds = [eq]
    for _ in range(rng.choice([1, 2])):
        left = rng.choice([a, L(S("+"), a, c), L(S("*"), N(2), a), L(S("-"), c, a)])
        k = Fraction(rng.choice([1, 2, 3, -1, 5]), rng.choice([1, 2]))
        conds.append(L(S(rng.choice(["<", "<=", ">=", ">"])), left, N(k.numerator, k.denominator)))
    rng.shuffle(conds)
    # every constant is an integer or a half: representable at the requested decimals, so the equivalence is
    # judged exactly (with a rounding band an equality is never more than "undetermined")
    return {"id": cid, "tree": domain_tree(conds), "digits": rng.choice([2, 4, 6]), "how": "print",
            "exact": True, "need": 1, "shape": "eqdiff"}


def gen_case(seed, cid):
    if cid % 8 == 5:
        return aligned_case(seed, cid)
    if cid % 8 == 3:
        return eqdiff_case(seed, cid)
    rng = random.Random(seed * 2750159 + cid)
    terms = rng.sample(TERMS, rng.choice([1, 2, 2, 3, 4]))
    kinds = rng.choice([["int"], ["int", "dec"], ["int", "dec"], ["int", "near"], ["dec"], ["dec", "near"], ["int", "dec", "near"]])
    g = G(rng, terms, kinds)
    shape = rng.choice(["single", "single", "set", "set+eq", "rational"])
    if shape == "set+eq" and len(terms) < 3:
        shape = "set"          # an elimination needs fluents that survive it
    if shape == "single":
        conds = [g.cond()]
    elif shape == "rational":
        conds = [g.rational()]
    elif shape == "set":
        conds = [g.cond(2) for _ in range(rng.choice([2, 3]))]
    else:
        conds = [g.equality()] + [g.cond(2) for _ in range(rng.choice([1, 2]))]
    digits = rng.choice([0, 1, 2, 2, 3, 4, 4, 5, 6])
    how = "tree" if shape in ("single", "rational") and rng.random() < 0.5 else "print"
    # exact: every constant an exact simplification can need is representable with the requested decimals
    # (near-integer constants such as 2.00001 need five)
    return {"id": cid, "tree": domain_tree(conds), "digits": digits, "how": how, "exact": digits >= g.need and shape != "set+eq",
            "need": g.need, "shape": shape}
