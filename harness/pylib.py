"""Adapter between the harness and the library under test (imported from /repo's working tree).

Only public entry points and public attributes are used.  Everything observed is projected
into the vocabulary of the TLA+ specification (JSON values):
  state      {"facts": [[p,[args]]...], "fl": [[f,[args],[n,d]]...], "hdr": ":init"|":state"}
  vocabulary {"name", "reqs", "types": [[t,parent]], "consts": [[c,t]], "preds": [[p,[t..]]],
              "funcs": [[f,[t..]]], "actions": [[a,[[v,t]..]]]}
"""
import logging
import os
import sys
import tempfile
from fractions import Fraction
from pathlib import Path

REPO = os.environ.get("VERIF_REPO", "/repo")
if REPO not in sys.path:
    sys.path.insert(0, REPO)

logging.disable(logging.CRITICAL)

from pddl_plus_parser.lisp_parsers import DomainParser, ProblemParser, PDDLTokenizer, TrajectoryParser  # noqa: E402
from pddl_plus_parser.models import (  # noqa: E402
    Domain, Problem, State, Operator, PDDLObject, GroundedPredicate, PDDLFunction, ActionCall,
)

import sexp_reader  # noqa: E402

WORK = Path(os.environ.get("VERIF_WORK", "/verif/.work"))


def scratch_dir():
    d = WORK / "scratch" / str(os.getpid())
    d.mkdir(parents=True, exist_ok=True)
    return d


_counter = [0]


def write_tmp(text, suffix=".pddl", newline=None):
    _counter[0] += 1
    # two files out of three go to one fixed path per kind (an episode loop overwriting its output file):
    # content remembered by path shows up as the previous file's
    p = scratch_dir() / (f"f{_counter[0]}{suffix}" if _counter[0] % 3 == 0 else f"current{suffix}")
    with open(p, "wt", encoding="utf-8", newline="" if newline is None else newline) as f:
        f.write(text)
    return p


# ---------------------------------------------------------------------------------------
# numbers

from numsnap import snap, snap_or_approx, INT_MAX  # noqa: E402,F401


# ---------------------------------------------------------------------------------------
# parsing

def write_reused(text, name):
    """the same path rewritten for every parse of the process (what a planning loop does): a result that
    is remembered by path shows up as the previous file's content"""
    p = scratch_dir() / name
    with open(p, "wt", encoding="utf-8") as f:
        f.write(text)
    return p


def parse_domain_text(text, **kw):
    p = write_reused(text, "domain.pddl")
    try:
        return DomainParser(p, **kw).parse_domain()
    finally:
        os.unlink(p)


def parse_problem_text(text, domain):
    p = write_reused(text, "problem.pddl")
    try:
        return ProblemParser(p, domain).parse_problem()
    finally:
        os.unlink(p)


def type_name(t):
    return t.name


def vocab(domain):
    types = []
    for name, t in domain.types.items():
        if name == "object":
            continue
        types.append([name, t.parent.name if t.parent is not None else "object"])
    return {
        "name": domain.name,
        "reqs": sorted(domain.requirements),
        "types": sorted(types),
        "consts": sorted([c.name, c.type.name] for c in domain.constants.values()),
        "preds": sorted([n, [t.name for t in p.signature.values()]] for n, p in domain.predicates.items()),
        "funcs": sorted([n, [t.name for t in f.signature.values()]] for n, f in domain.functions.items()),
        "actions": sorted([n, [[v, t.name] for v, t in a.signature.items()]] for n, a in domain.actions.items()),
        "keys_ok": all(n == p.name for n, p in domain.predicates.items())
        and all(n == f.name for n, f in domain.functions.items())
        and all(n == a.name for n, a in domain.actions.items()),
    }


def subtype_matrix(domain):
    names = sorted(domain.types)
    return [[a, b, bool(domain.types[a].is_sub_type(domain.types[b]))] for a in names for b in names]


# ---------------------------------------------------------------------------------------
# objects and states

def mk_objects(domain, objs):
    """objs: [[name, type]...] -> dict name -> PDDLObject (what Problem.objects holds)"""
    return {n: PDDLObject(name=n, type=domain.types[t]) for n, t in objs}


def problem_text(name, domain_name, objs, facts, fl, goal_lits=(), goal_cmps=()):
    o = " ".join(f"{n} - {t}" for n, t in objs)
    items = ["(" + " ".join([p] + list(a)) + ")" for p, a in facts]
    items += [f"(= ({' '.join([f] + list(a))}) {num_str(v)})" for f, a, v in fl]
    g = ["(" + " ".join([p] + list(a)) + ")" for p, a in goal_lits] + list(goal_cmps)
    return (f"(define (problem {name}) (:domain {domain_name})\n(:objects {o})\n"
            f"(:init {' '.join(items)})\n(:goal (and {' '.join(g)})))\n")


def num_str(v):
    fr = Fraction(v[0], v[1])
    if fr.denominator == 1:
        return str(fr.numerator)
    return repr(float(fr))


def mk_state_via_problem(domain, objs, facts, fl, is_init=False):
    """build a State the public way: parse a problem whose :init is the state"""
    prob = parse_problem_text(problem_text("p", domain.name, objs, facts, fl), domain)
    return State(prob.initial_state_predicates, prob.initial_state_fluents, is_init=is_init), prob


def project_state_text(text):
    """serialized state text -> projection, read by the independent reader"""
    tree = sexp_reader.read_plain(text)
    return project_state_plain(tree)


def project_state_plain(tree):
    hdr = tree[0] if tree and isinstance(tree[0], str) else "#none"
    facts, fl, bad = [], [], []
    for item in tree[1:]:
        if isinstance(item, list) and item and item[0] == "=" and len(item) == 3 and isinstance(item[1], list) \
                and isinstance(item[2], str):
            try:
                val = snap_or_approx(float(item[2]))
            except ValueError:
                bad.append(item)
                continue
            # 4th element: the exact value as the canonical text of the double (preservation properties
            # compare it; the snapped rational is what arithmetic is judged with)
            fl.append([item[1][0], list(item[1][1:]), val, repr(float(item[2]))])
        elif isinstance(item, list) and item and all(isinstance(x, str) for x in item):
            facts.append([item[0], list(item[1:])])
        else:
            bad.append(item)
    out = {"hdr": hdr, "facts": sorted(facts), "fl": sorted(fl)}
    if bad:
        out["bad"] = repr(bad)[:200]
    return out


def project_state(state):
    return project_state_text(state.serialize())


def project_typed_state(state):
    """State.typed_serialize() -> the untyped projection plus the type annotations
    {"st": projection, "types": [[name, [[object, type]...]]...]} (None if the text has another shape)"""
    tree = sexp_reader.read_plain(state.typed_serialize())

    def split(items):
        if len(items) % 3 or any(items[i + 1] != "-" for i in range(0, len(items), 3)):
            raise ValueError("typed argument list")
        return [[items[i], items[i + 2]] for i in range(0, len(items), 3)]
    plain, types = [":typed"], []
    for item in tree:
        if isinstance(item, list) and item and item[0] == "=" and len(item) == 3 and isinstance(item[1], list):
            ta = split(item[1][1:])
            plain.append(["=", [item[1][0]] + [o for o, _ in ta], item[2]])
            types.append([item[1][0], ta])
        elif isinstance(item, list) and item and all(isinstance(x, str) for x in item):
            ta = split(item[1:])
            plain.append([item[0]] + [o for o, _ in ta])
            types.append([item[0], ta])
        else:
            raise ValueError("typed item")
    return {"st": project_state_plain(plain), "types": types}


def apply_edit(domain, state, how, name, args):
    """one given in-place edit of a State (fact added / removed); returns the event fields"""
    ev = {"how": how, "fact": [name, list(args)], "f": "", "a": [], "v": [0, 1]}
    try:
        if how == "remove":
            for key in list(state.state_predicates):
                state.state_predicates[key] = {g for g in state.state_predicates[key]
                                               if not (g.name == name and list(g.grounded_objects) == list(args))}
        else:
            lifted = domain.predicates[name]
            gp = GroundedPredicate(name=name, signature=dict(lifted.signature),
                                   object_mapping=dict(zip(lifted.signature.keys(), args)))
            state.state_predicates.setdefault(gp.lifted_untyped_representation, set()).add(gp)
        ev["out"] = {"st": project_state(state)}
    except Exception as e:  # noqa: BLE001
        ev["out"] = {"exc": exc_name(e)}
    return ev


def edit_state(rng, domain, state, atoms):
    """change `state` in place through its public containers; returns the event fields
    {"how": "add"|"remove"|"set", "fact": [p, args] | "f","a","v", "out": {"st": projection after}}"""
    before = project_state(state)
    have = [f for f in before["facts"]]
    r = rng.random()
    ev = {"how": None, "fact": ["", []], "f": "", "a": [], "v": [0, 1]}
    try:
        if r < 0.15 and before["fl"]:
            # a fluent taken out of the state altogether: the state then assigns fewer fluents than its twin
            f, a, _, _ = rng.choice(before["fl"])
            for key in [k for k, fl in state.state_fluents.items() if fl.name == f and list(fl.signature.keys()) == list(a)]:
                del state.state_fluents[key]
            ev.update({"how": "unset", "f": f, "a": list(a)})
        elif r < 0.4 and have:
            name, args = rng.choice(have)
            for key in list(state.state_predicates):
                state.state_predicates[key] = {g for g in state.state_predicates[key]
                                               if not (g.name == name and list(g.grounded_objects) == list(args))}
            ev.update({"how": "remove", "fact": [name, list(args)]})
        elif r < 0.8:
            missing = [a for a in atoms if a not in have]
            if not missing:
                return None
            name, args = rng.choice(missing)
            lifted = domain.predicates[name]
            gp = GroundedPredicate(name=name, signature=dict(lifted.signature),
                                   object_mapping=dict(zip(lifted.signature.keys(), args)))
            state.state_predicates.setdefault(gp.lifted_untyped_representation, set()).add(gp)
            ev.update({"how": "add", "fact": [name, list(args)]})
        else:
            if not before["fl"]:
                return None
            f, a, _, _ = rng.choice(before["fl"])
            # the last ones are below 1e-4 (their shortest text has an exponent and more than 6 decimals)
            v = rng.choice([[0, 1], [1, 1], [-1, 1], [1, 2], [5, 2], [7, 1], [-3, 4], [1, 80000], [67, 5000000], [-1, 80000]])
            x = v[0] / v[1]
            for fl in state.state_fluents.values():
                if fl.name == f and list(fl.signature.keys()) == list(a):
                    fl.set_value(x)
            ev.update({"how": "set", "f": f, "a": list(a), "v": snap_or_approx(x), "x": repr(float(x))})
        ev["out"] = {"st": project_state(state)}
    except Exception as e:  # noqa: BLE001
        ev["out"] = {"exc": exc_name(e)}
    return ev


def exc_name(e):
    return type(e).__name__


# ---------------------------------------------------------------------------------------
# operators

def new_operator(domain, act, args, objects):
    return Operator(action=domain.actions[act], domain=domain, grounded_action_call=list(args),
                    problem_objects=objects)


def observe_applicable(domain, act, args, objects, state, op=None):
    try:
        if op is None:
            op = new_operator(domain, act, args, objects)
        return {"val": bool(op.is_applicable(state))}
    except Exception as e:  # noqa: BLE001 - any exception is "rejected"
        return {"exc": exc_name(e)}


def observe_apply(domain, act, args, objects, state, allow=False, skip=False, op=None):
    try:
        if op is None:
            op = new_operator(domain, act, args, objects)
        nxt = op.apply(state, allow_inapplicable_actions=allow, skip_validation=skip)
        return {"st": project_state(nxt)}, nxt
    except Exception as e:  # noqa: BLE001
        return {"exc": exc_name(e)}, None


# ---------------------------------------------------------------------------------------
# problems

def project_problem(problem):
    """public attributes of a parsed Problem -> JSON in the spec's vocabulary"""
    init = State(problem.initial_state_predicates, problem.initial_state_fluents, is_init=True)
    goal_lits = [[g.name, list(g.grounded_objects)] for g in problem.goal_state_predicates]
    goal_cmps = [sexp_reader.read(t.to_pddl(decimal_digits=8)) for t in problem.goal_state_fluents]
    return {"name": problem.name, "objs": sorted([o.name, o.type.name] for o in problem.objects.values()),
            "objs_keys_ok": all(k == o.name for k, o in problem.objects.items()),
            "init": project_state(init), "goal_lits": goal_lits, "goal_cmps": goal_cmps}


def observe_problem(text, domain):
    try:
        prob = parse_problem_text(text, domain)
        return {"prob": project_problem(prob)}, prob
    except Exception as e:  # noqa: BLE001
        return {"exc": exc_name(e)}, None


def type_graph(domain):
    from pddl_plus_parser.models import create_type_hierarchy_graph
    g = create_type_hierarchy_graph(domain.types)
    return sorted([a, b] for a, b in g.edges()), sorted(g.nodes())


# ---------------------------------------------------------------------------------------
# grounding (C20)

def _lit(gp):
    """GroundedPredicate -> [positive, name, [objects], [type names]] (signature order)"""
    return [bool(gp.is_positive), gp.name, list(gp.grounded_objects), [t.name for t in gp.signature.values()]]


def observe_grounding(domain, act, args, objects, used_on=()):
    """what an Operator reports for a call; with used_on, the report is read after the same object has answered
    applicability queries and been applied to those states (the report is about the call, not about its use)"""
    from pddl_plus_parser.models import GroundedPredicate as GP, NumericalExpressionTree as NET
    try:
        op = new_operator(domain, act, args, objects)
        op.ground()
        for st in used_on:
            try:
                op.is_applicable(st)
                op.apply(st, allow_inapplicable_actions=True)
            except Exception:  # noqa: BLE001  (what the transition does is judged elsewhere)
                pass
        lits, nums = [], []
        for _, cond in op.grounded_preconditions:
            if isinstance(cond, GP):
                lits.append(_lit(cond))
            elif isinstance(cond, NET):
                nums.append(sexp_reader.read(cond.to_pddl()))
        groups = []
        for g in op.grounded_effects:
            groups.append({"adds": [_lit(x) for x in g.grounded_discrete_effects if x.is_positive],
                           "dels": [_lit(x) for x in g.grounded_discrete_effects if not x.is_positive],
                           "nums": [sexp_reader.read(x.to_pddl()) for x in g.grounded_numeric_effects]})
        call = sexp_reader.read_plain(op.typed_action_call)
        typed = []
        rest = call[1:]
        for i in range(0, len(rest), 3):
            typed.append([rest[i], rest[i + 2]])
        return {"pre_lits": lits, "pre_nums": nums, "groups": groups, "call": [call[0], typed]}
    except Exception as e:  # noqa: BLE001
        return {"exc": exc_name(e)}
