"""Development aid (not a registered check): import a seeded change produced by an independent
sub-agent, confirm it (existing tests still pass, its demonstration fails with the change and
passes without), and run checks against it.

  seeded.py confirm <worktree> <name>        verify in the agent's scratch worktree, copy to /verif/seeded/<name>/
  seeded.py run <name> <PID> [tier]          apply to /repo, run ./check PID, undo; record the outcome in meta.json
"""
import json
import os
import re
import shutil
import subprocess
import sys
from pathlib import Path

SEEDED = Path("/verif/seeded")
PY = "/venv/bin/python"


def sh(cmd, cwd=None, timeout=3600):
    return subprocess.run(cmd, shell=True, cwd=cwd, capture_output=True, text=True, timeout=timeout)


def tests_ok(wt):
    r = sh(f"{PY} -m pytest -q -p no:cacheprovider --timeout=900 --continue-on-collection-errors 2>&1 | tail -1", wt)
    ok = "63 passed" in r.stdout and "34 failed" in r.stdout and "176 errors" in r.stdout
    detail = [r.stdout.strip()]
    for d, n in (("exporters_tests", 11), ("lisp_parsers_tests", 88), ("models_tests", 142), ("multi_agent_tests", 32)):
        r = sh(f"{PY} -m pytest -q -p no:cacheprovider --timeout=900 2>&1 | tail -1", f"{wt}/tests/{d}")
        detail.append(r.stdout.strip())
        ok = ok and f"{n} passed" in r.stdout and "failed" not in r.stdout
    sh("git checkout -- tests; git clean -fdq tests", wt)
    return ok, detail


def confirm(wt, name):
    wt = Path(wt)
    out = wt / "_out"
    patch = out / "patch.diff"
    assert patch.exists() and (out / "demo.py").exists(), "deliverables missing"
    # state: change applied?
    diff = sh("git diff -- pddl_plus_parser", wt).stdout
    if not diff.strip():
        assert sh(f"git apply {patch}", wt).returncode == 0
    ok, detail = tests_ok(wt)
    with_change = sh(f"PYTHONPATH={wt} {PY} _out/demo.py", wt, 600)
    assert sh("git stash -q -- pddl_plus_parser", wt).returncode == 0
    without = sh(f"PYTHONPATH={wt} {PY} _out/demo.py", wt, 600)
    sh("git stash pop -q", wt)
    res = {"tests_pass_with_change": ok, "tests": detail, "demo_rc_with_change": with_change.returncode,
           "demo_rc_without": without.returncode, "demo_msg": (with_change.stdout + with_change.stderr)[-600:]}
    confirmed = ok and with_change.returncode != 0 and without.returncode == 0
    print(json.dumps(res, indent=1))
    if confirmed:
        d = SEEDED / name
        d.mkdir(parents=True, exist_ok=True)
        shutil.copy(patch, d / "patch.diff")
        shutil.copy(out / "demo.py", d / "demo.py")
        meta = json.loads((out / "meta.json").read_text()) if (out / "meta.json").exists() else {}
        meta["confirmed"] = {"what_i_ran": "in a scratch worktree: pinned pytest command (63 passed / 34 failed / 176 errors "
                             "baseline) and the four test directories from inside themselves (11/88/142/32 passed) with the "
                             "change; demo.py with the change (must fail) and with the change stashed (must pass)", **res}
        meta.setdefault("checks", {})
        (d / "meta.json").write_text(json.dumps(meta, indent=1))
        print("CONFIRMED ->", d)
    else:
        print("NOT CONFIRMED")
    return confirmed


def run(name, pid, tier="quick", worktree=False):
    """apply the change to /repo (or, with worktree=True, to a scratch worktree that the check is pointed at
    through VERIF_REPO - used while a background run is reading /repo), run the check, undo"""
    d = SEEDED / name
    if worktree:
        wt = f"/tmp/wt_seed_{os.getpid()}"
        assert sh(f"git worktree add -q --detach {wt} HEAD", "/repo").returncode == 0
        try:
            r = sh(f"git apply {d / 'patch.diff'}", wt)
            assert r.returncode == 0, r.stderr
            c = sh(f"VERIF_EVIDENCE=/verif/.work/seeded_evidence VERIF_REPO={wt} ./check {pid} --tier {tier}", "/verif", 7200)
        finally:
            sh(f"git worktree remove --force {wt}", "/repo")
    else:
        assert sh("git status --short", "/repo").stdout.strip() == "", "/repo not clean"
        r = sh(f"git apply {d / 'patch.diff'}", "/repo")
        assert r.returncode == 0, r.stderr
        try:
            c = sh(f"VERIF_EVIDENCE=/verif/.work/seeded_evidence ./check {pid} --tier {tier}", "/verif", 7200)
        finally:
            sh("git checkout -- .", "/repo")
    viol = re.findall(r"VIOLATION property=\S+ replay=\S+\s+\[([^\]]*)\]", c.stdout)
    meta = json.loads((d / "meta.json").read_text())
    meta.setdefault("checks", {})[f"{pid}:{tier}"] = {"rc": c.returncode, "violations": sorted(set(viol))[:6],
                                                     "caught": c.returncode == 1}
    (d / "meta.json").write_text(json.dumps(meta, indent=1))
    print(name, pid, tier, "rc", c.returncode, sorted(set(viol))[:6])
    if c.returncode == 2:
        print(c.stdout[-1500:])
        print(c.stderr[-3000:])
    return c.returncode


if __name__ == "__main__":
    if sys.argv[1] == "confirm":
        confirm(sys.argv[2], sys.argv[3])
    else:
        wt = "--worktree" in sys.argv
        args = [a for a in sys.argv if a != "--worktree"]
        run(args[2], args[3], args[4] if len(args) > 4 else "quick", worktree=wt)
