"""writes /verif/MANIFEST.json from the registry (kept valid at all times)"""
import json
import sys
from pathlib import Path

sys.path.insert(0, str(Path(__file__).resolve().parent))
import registry  # noqa: E402

ROOT = Path(__file__).resolve().parent.parent
ALL = [json.loads(l)["id"] for l in open(ROOT / "properties.jsonl")]

META = registry.META

checks = []
for pid in ALL:
    if pid not in registry.CHECKS:
        continue
    m = META[pid]
    checks.append({
        "property_id": pid,
        "quick_cmd": f"./check {pid} --tier quick",
        "thorough_cmd": f"./check {pid} --tier thorough",
        "evidence_file": f"/verif/evidence/{pid}.json",
        "replay_cmd_template": f"./check {pid} --replay {{path}}",
        "engine": m["engine"],
        "level_claimed": {"category": registry.CHECKS[pid][1], "text": m["text"], "design_ref": m["design_ref"]},
        "level_note": m["note"],
        "technique": m["technique"],
    })

manifest = {
    "version": 1,
    "setup_cmd": "./setup.sh",
    "hooks": {
        "guard": "PDDL_PLUS_PARSER_VERIF",
        "enable": "no source hooks are needed: every observation is taken at the return of a public call through public "
                  "attributes; checks import the library from /repo's working tree (PYTHONPATH=/repo)",
        "baseline_off_cmd": "cd /repo && /venv/bin/python -m pytest -ra -q -p no:cacheprovider --timeout=900 "
                            "--continue-on-collection-errors",
        "source_commits": [],
        "add_only": True,
    },
    "engines": [
        {"name": "M", "path": "spec/MC_*.tla", "serves_properties": sorted(registry.CHECKS),
         "kind_free_text": "TLC bounded model checking of the explicit TLA+ specification (small-step models refine the "
                           "declarative definitions; negative-control invariants must be refuted)"},
        {"name": "G", "path": "spec/Gen_*.tla + harness/drive_*.py", "serves_properties": sorted(registry.CHECKS),
         "kind_free_text": "spec -> code: TLC enumerates and renders the bounded family of inputs, the harness drives the "
                           "library along them, the recorded calls are judged by TLC"},
        {"name": "V", "path": "spec/TraceApi.tla (+MCTrace) + harness/drive_*.py", "serves_properties": sorted(registry.CHECKS),
         "kind_free_text": "code -> spec: trace validation of recorded executions (random generators, repository fixtures) "
                           "against PddlApi with total per-history verdicts and named known deviations"},
    ],
    "checks": checks,
    "not_applicable": [{"property_id": pid, "reason": registry.NOT_YET.get(pid, "check not built yet (work in progress; "
                        "the TLA+ technique applies, see DESIGN.md section 6)")}
                       for pid in ALL if pid not in registry.CHECKS],
    "notes": "All checks: cwd=/verif, honour VERIF_SEED / VERIF_TIER, exit 0/1/2 = held / VIOLATION / machinery failure. "
             "Known findings: /verif/known_findings.json (read-only at run time).",
}
(ROOT / "MANIFEST.json").write_text(json.dumps(manifest, indent=1) + "\n")
print("MANIFEST.json:", len(checks), "checks,", len(manifest["not_applicable"]), "not applicable")
