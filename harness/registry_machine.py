"""spec/MC_Registry.tla: model checking with its negative controls and extraction of behaviours."""
import json
import re

import tlc
from tlc import MachineryError

LINE_RE = re.compile(r'<<\s*"HIST",\s*"((?:[^"\\]|\\.)*)"\s*>>', re.S)


def model_check(ctx, maxlen):
    ctx.mc("MC_Registry", {"Mode": '"correct"', "MaxLen": maxlen}, ["Faithful"], label=f"MC_Registry:correct:{maxlen}")
    for mode in ("sharedDefault", "nameCache"):
        ctx.mc("MC_Registry", {"Mode": f'"{mode}"', "MaxLen": 4}, ["Faithful"], expect_violation=True,
               label=f"MC_Registry:{mode}:Faithful")


def behaviours(ctx, maxlen):
    cfg = ("SPECIFICATION Spec\n" 'CONSTANT Mode = "correct"\n' f"CONSTANT MaxLen = {maxlen}\n" "INVARIANT Emit\nCHECK_DEADLOCK FALSE\n")
    r = tlc.run_tlc(tlc.SPEC_DIR / "MC_Registry.tla", cfg, ctx.work / f"reg_gen_{maxlen}", workers=1, timeout=1800)
    seqs = [json.loads(json.loads('"' + m.group(1) + '"')) for m in LINE_RE.finditer(r["out"])]
    if "is violated" in r["out"] or not seqs:
        raise MachineryError("MC_Registry generator failed:\n" + r["out"][-2000:])
    ctx.log(f"MC_Registry emitted {len(seqs)} behaviours of {maxlen} calls ({r['wall']:.1f}s)")
    return seqs


def replay(ctx, seqs, base, hashseeds):
    cases = [{"id": base + i, "calls": s} for i, s in enumerate(seqs)]
    tf = ctx.drive("registry", cases, hashseeds=hashseeds)
    ctx.validate(tf, {c["id"]: c for c in cases}, driver="registry")
    return tf
